package main

// C16 — which differences between the implementation's and the model's observation line lie outside the
// property ("static file serving never returns the content or a listing of anything outside the configured
// root …; a request naming an existing regular file under the root by its clean path is served exactly that
// file's bytes").
//
// Both lines have the form   [disp] [n name*] outcome   (disp: file variants 4 / 5 only; the list of names handed to
// the recording file system only when the configuration has one).  The property speaks about what a response
// RETURNS: the outcome.  It does not speak about
//   - which status refuses a request that is not served (404 / 500 / 400 / 403 …),
//   - which names the code handed to the file system on the way (only what came back counts), their order or number,
//   - the Content-Disposition header of Attachment / Inline,
//   - a crash of a request that returns nothing (the property forbids content, not panics).
// Everything that says WHAT was returned — which file's bytes, a listing and of what, whether the next handler
// answered, a redirect, a 2xx with another body, a refused configuration — has to agree exactly.

import (
	"encoding/hex"
	"path"
	"regexp"
	"strconv"
	"strings"
	"sync"
)

// c16Shape: facts about a case's observation line that the line itself does not carry (recorded by c16Run).
type c16Shape struct {
	names bool // the line starts (after disp) with the list of names given to the recording file system
	disp  bool // the line starts with the Content-Disposition value
}

var c16Shapes sync.Map // *c16Case -> c16Shape

func c16NoteShape(c *c16Case, res Result) {
	sh := c16Shape{}
	if res.Ops != "" {
		t := strings.SplitN(res.Ops, " ", 3)
		sh.names = len(t) > 1 && t[1] == "1"
		sh.disp = t[0] == "6" && c.Kind == 2 && (c.Variant == 4 || c.Variant == 5)
	}
	c16Shapes.Store(c, sh)
}

type c16ObsLine struct {
	hasDisp  bool
	disp     string
	hasNames bool
	names    []string
	out      []string // outcome tokens: out[0] is the kind
}

func c16Unhex(t string) (string, bool) {
	if !strings.HasPrefix(t, "s") {
		return "", false
	}
	b, err := hex.DecodeString(t[1:])
	if err != nil {
		return "", false
	}
	return string(b), true
}

func c16ParseObs(line string, sh c16Shape) (o c16ObsLine, ok bool) {
	t := strings.Split(line, " ")
	// answers of the model / harness that are not a result line
	if len(t) == 1 && !sh.disp && !sh.names {
		return c16ObsLine{out: t}, t[0] != ""
	}
	if len(t) == 1 && (t[0] == "config-panic" || t[0] == "root-outside-work-directory" || t[0] == "bad-op" || t[0] == "harness-panic") {
		return c16ObsLine{out: t}, true
	}
	if sh.disp {
		if len(t) == 0 {
			return o, false
		}
		d, good := c16Unhex(t[0])
		if !good {
			return o, false
		}
		o.hasDisp, o.disp, t = true, d, t[1:]
	}
	if sh.names {
		if len(t) == 0 {
			return o, false
		}
		n, err := strconv.Atoi(t[0])
		if err != nil || n < 0 || len(t) < 1+n+1 {
			return o, false
		}
		o.hasNames = true
		for _, x := range t[1 : 1+n] {
			s, good := c16Unhex(x)
			if !good {
				return o, false
			}
			o.names = append(o.names, s)
		}
		t = t[1+n:]
	}
	if len(t) == 0 || t[0] == "" {
		return o, false
	}
	o.out = t
	return o, true
}

var c16OtherStatus = regexp.MustCompile(`^other-([0-9]{3})$`)

// c16Refusal: the response carries no file content, no listing and no answer of a handler: the request was
// refused with a 4xx / 5xx status.  (next-404 = status 404 behind the middleware, 404 = status 404 of a route,
// err500 = status 500.)  The property says such a request is "not served"; it does not say with which status.
func c16Refusal(out []string) bool {
	if len(out) != 1 {
		return false
	}
	switch out[0] {
	case "next-404", "404", "err500":
		return true
	}
	if m := c16OtherStatus.FindStringSubmatch(out[0]); m != nil {
		return m[1][0] == '4' || m[1][0] == '5'
	}
	return false
}

func c16SameTokens(a, b []string) bool {
	if len(a) != len(b) {
		return false
	}
	for i := range a {
		if a[i] != b[i] {
			return false
		}
	}
	return true
}

// c16NameRoot: where the configured root lies below the base of the recording file system ("" = the file system
// is rooted at the root itself).
func c16NameRoot(c *c16Case) string {
	switch c.Kind {
	case 0:
		switch c.FS {
		case 3, 5, 6, 14, 15:
			return c16RootName
		}
	case 2:
		if c.Variant == 2 || c.Variant == 8 {
			return c16RootName
		}
	}
	return ""
}

// c16NameInside: the name, as handed to a file system whose base is `root` levels above the configured root,
// cannot name anything outside the root: no dot-dot element, and lexically below the root.
func c16NameInside(name, root string) bool {
	for _, sg := range strings.Split(name, "/") {
		if sg == ".." {
			return false
		}
	}
	if root == "" {
		return true
	}
	cl := path.Clean("/" + name)
	return cl == "/"+root || strings.HasPrefix(cl, "/"+root+"/")
}

// c16NamesTolerable: the names handed to the file system are a means, not something the response returns.  A
// difference is outside the property when the implementation opened fewer names than the model, or other names
// that lie inside the root; opening a name outside the root that the model does not open is NOT tolerated (the
// first step of leaving the root), whatever came back.
func c16NamesTolerable(c *c16Case, impl, model []string) bool {
	left := map[string]int{}
	for _, n := range model {
		left[n]++
	}
	root := c16NameRoot(c)
	for _, n := range impl {
		if left[n] > 0 {
			left[n]--
			continue
		}
		if !c16NameInside(n, root) {
			return false
		}
	}
	return true
}

// c16NoSeekServed: the configuration hands out files that are no io.ReadSeeker (Fault 4: Static(FS) route variants 16, 17,
// File helpers 3, 4, 5, 7 — recording file systems rooted at the root), the model answered err500 AFTER it had opened a
// regular file (the last name it handed to the file system names a regular file under the root: the requested file, or
// the index.html of the requested directory), and the implementation answered 200 with exactly THAT file's bytes.
// Serving the bytes of the file the clean path names is the positive clause of the property; the refusal of
// non-seekable files is an assumption of the model (obligations/C16.json), not something the property states.
// Another file, a listing, content from elsewhere, a model refusal for any other reason (undecodable path: no name
// opened; a name that is no regular file) are not covered.
func c16NoSeekServed(c *c16Case, im, mo c16ObsLine) bool {
	if c.Fault != 4 || !mo.hasNames || len(mo.names) == 0 || len(mo.out) != 1 || mo.out[0] != "err500" || len(im.out) != 2 || im.out[0] != "file" {
		return false
	}
	switch c.Kind {
	case 1:
		if c.Variant != 16 && c.Variant != 17 {
			return false
		}
	case 2:
		if c.Variant != 3 && c.Variant != 4 && c.Variant != 5 && c.Variant != 7 {
			return false
		}
	default:
		return false
	}
	last := mo.names[len(mo.names)-1]
	if !c16NameInside(last, "") || path.Clean(last) != last || strings.HasPrefix(last, "/") {
		return false
	}
	e, ok := c16ByRel[c16RootName+"/"+last]
	return ok && !e.dir && strconv.Itoa(e.id) == im.out[1]
}

func c16Tolerable(ci any, implObs, modelObs string) bool {
	c, ok := ci.(*c16Case)
	if !ok {
		return false
	}
	v, ok := c16Shapes.Load(c)
	if !ok {
		return false
	}
	sh := v.(c16Shape)
	im, ok1 := c16ParseObs(implObs, sh)
	mo, ok2 := c16ParseObs(modelObs, sh)
	if !ok1 || !ok2 || im.hasDisp != mo.hasDisp || im.hasNames != mo.hasNames {
		return false
	}
	// 1. what the response returned
	switch {
	case c16SameTokens(im.out, mo.out):
		// the same file / the same listing (title and entries) / the same kind of answer
	case c16Refusal(im.out) && c16Refusal(mo.out):
		// refused by both, with different statuses
	case len(mo.out) == 1 && mo.out[0] == "panic" && c16Refusal(im.out):
		// the model's request crashes (nothing is returned), the implementation refuses it: nothing returned either
	case c16NoSeekServed(c, im, mo):
		// files that cannot seek (Fault 4): the model refuses them (fsFile's 500 "does not implement io.ReadSeeker" at
		// the pinned commit), the implementation serves exactly the file the model found and could not hand to
		// http.ServeContent — which is what the positive clause asks for
	default:
		// served vs not served, another file, another listing, next handler answered vs not, redirect, 2xx with
		// another body, a panic the model does not have, a refused / accepted configuration: never tolerated
		return false
	}
	// 2. the names handed to the file system
	if im.hasNames && !c16NamesTolerable(c, im.names, mo.names) {
		return false
	}
	// 3. the Content-Disposition header: not mentioned by the property, any difference is outside it
	return true
}

// c16ObsOf parses an observation line of the case (its shape was recorded by c16Run).
func c16ObsOf(c *c16Case, obs string) (c16ObsLine, bool) {
	v, ok := c16Shapes.Load(c)
	if !ok {
		return c16ObsLine{}, false
	}
	return c16ParseObs(obs, v.(c16Shape))
}

// c16ObsRefusal: the implementation refused the request (any 4xx / 5xx status, nothing served).
func c16ObsRefusal(c *c16Case, obs string) bool {
	o, ok := c16ObsOf(c, obs)
	return ok && c16Refusal(o.out)
}
