package main

import (
	"strconv"
	"strings"
)

// c14Tolerable: the observation of a request is `0` (rejected before the handler) or `1 n (data err)* is413`.
// The property fixes: rejection by declared length; for a body longer than L everything up to and including the read
// that reports the 413 error (bytes delivered, the error, never more than L bytes without it); bodies of at most L bytes
// unchanged; no carry-over.  What the reads of a handler that CARRIES ON after the 413 error return is left open (the
// model mirrors the present code: the reader's further answers, each with the error).  Tolerated: a difference confined
// to the reads after the first 413 of a request, provided the implementation hands out no further byte without that
// error (checked by the oracle as well) and the 413 status bit agrees.  Everything else counts.
func c14Tolerable(_ any, impl, model string) bool {
	a, ok1 := c14ParseObs(impl)
	b, ok2 := c14ParseObs(model)
	if !ok1 || !ok2 || len(a) != len(b) {
		return false
	}
	for i := range a {
		x, y := a[i], b[i]
		if x.ran != y.ran || x.is413 != y.is413 {
			return false
		}
		fx, fy := x.first413(), y.first413()
		if fx != fy {
			return false
		}
		n := len(x.reads)
		if fx >= 0 {
			n = fx + 1
			for _, r := range x.reads[fx+1:] {
				if r.data != "s" && r.err != "3" {
					return false
				}
			}
		} else if len(x.reads) != len(y.reads) {
			return false
		}
		if len(y.reads) < n {
			return false
		}
		for k := 0; k < n; k++ {
			if x.reads[k] != y.reads[k] {
				return false
			}
		}
	}
	return true
}

type c14ObsRead struct{ data, err string }
type c14ObsReq struct {
	ran   bool
	reads []c14ObsRead
	is413 string
}

func (r c14ObsReq) first413() int {
	for k, x := range r.reads {
		if x.err == "3" {
			return k
		}
	}
	return -1
}

func c14ParseObs(line string) ([]c14ObsReq, bool) {
	t := strings.Fields(line)
	if len(t) == 0 {
		return nil, false
	}
	n, err := strconv.Atoi(t[0])
	if err != nil {
		return nil, false
	}
	pos := 1
	var out []c14ObsReq
	for i := 0; i < n; i++ {
		if pos >= len(t) {
			return nil, false
		}
		if t[pos] == "0" {
			out = append(out, c14ObsReq{})
			pos++
			continue
		}
		if t[pos] != "1" || pos+1 >= len(t) {
			return nil, false
		}
		k, err := strconv.Atoi(t[pos+1])
		if err != nil || pos+2+2*k >= len(t)+0 && pos+2+2*k > len(t)-1 {
			return nil, false
		}
		pos += 2
		rq := c14ObsReq{ran: true}
		for j := 0; j < k; j++ {
			rq.reads = append(rq.reads, c14ObsRead{t[pos], t[pos+1]})
			pos += 2
		}
		rq.is413 = t[pos]
		pos++
		out = append(out, rq)
	}
	return out, pos == len(t)
}
