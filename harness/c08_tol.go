package main

// C08 — which differences between the implementation's and the model's observation line lie OUTSIDE the property.
//
// The property (properties.jsonl, C08) fixes, for struct binding AND the value binder: the destination afterwards
// holds exactly the value the text denotes OR the call reports a 400-class error; text that does not fit is an
// error, never a wrapped or truncated number; nothing panics; and for the VALUE BINDER only: a failing call leaves
// its destination unchanged, and in fail-fast mode nothing is written after the first error.
//
// It does not say what a FAILING STRUCT bind leaves in the very field whose text it could not convert: bind.go
// allocates a nil pointer field (`*int8`, `*bool`, `*[]uint8`, pointer to an unmarshaler) before it converts, so after
// a 400 that field points to a zero value; leaving (or putting) it nil — the state it had before the call — is as good.
// The model mirrors the allocation; that is the one difference tolerated here.
//
// Observation lines (c08RunStruct): `status n fval*`, status 0 ok | 1 a 400 HTTPError | 9 an error of another class |
// 2 panic; one fval per field for which a source carries a key, in walk order: `0 sval` | `1` (nil) | `2 k sval*` |
// `3` (pointer to a nil slice).  The wording, wrapping and concrete type of the error are canonicalised away by the
// runner already (status 1 = errors.As finds an *echo.HTTPError with code 400).
//
// Decision per field of the line:
//   status          strict — success vs error, a non-400 class (9) and a panic (2) are never tolerated
//   n               strict
//   fval, status 0  strict — the value the text denotes
//   fval, status 1  strict for every field EXCEPT the one field the failing bind was converting (recomputed from the
//                   case with the model-free denotation: the first field in walk order — path pass before query pass —
//                   with a text that does not fit).  For that field, only if it is a pointer field (`*T`, `*[]T`,
//                   pointer to a multi-value unmarshaler) that was nil before the call and was not bound by an earlier
//                   source: `nil` and `freshly allocated zero value` are interchangeable.  Any other state (a value, a
//                   partly converted slice) is not.
//   value binder    nothing is tolerated: every token (destination of each call, errors recorded, BindError /
//                   BindErrors results) is what the property's value-binder clauses speak about.
// A line that does not parse is never tolerated.

import (
	"strconv"
	"strings"
)

// c08StructData: the texts per catalogue field as the request carries them (data: the only / first source; data2: the
// query string of a param+query case)
func c08StructData(c *c08Case) (data, data2 map[string][]string) {
	twoPass := c.Source == "param+query"
	collect := func(fields []c08Field, single bool) map[string][]string {
		out := map[string][]string{}
		for _, f := range fields {
			vals := f.all()
			if _, ok := c08CatByN[f.Name]; !ok || len(vals) == 0 {
				continue
			}
			if single {
				out[f.Name] = vals[:1]
			} else {
				out[f.Name] = append(out[f.Name], vals...)
			}
		}
		return out
	}
	data = collect(c.Fields, c.Source == "param" || twoPass)
	data2 = map[string][]string{}
	if twoPass {
		data2 = collect(c.Fields2, false)
	}
	return data, data2
}

// c08TolFVals splits `status n fval*` into the status and the token groups of the fields
func c08TolFVals(line string) (status string, fvals []string, ok bool) {
	t := strings.Fields(line)
	if len(t) < 2 {
		return "", nil, false
	}
	n, err := strconv.Atoi(t[1])
	if err != nil || n < 0 {
		return "", nil, false
	}
	i := 2
	sval := func() bool { // two tokens: kind, payload
		if i+2 > len(t) {
			return false
		}
		i += 2
		return true
	}
	for f := 0; f < n; f++ {
		if i >= len(t) {
			return "", nil, false
		}
		start := i
		switch t[i] {
		case "1", "3":
			i++
		case "0":
			i++
			if !sval() {
				return "", nil, false
			}
		case "2":
			i++
			if i >= len(t) {
				return "", nil, false
			}
			k, err := strconv.Atoi(t[i])
			if err != nil || k < 0 {
				return "", nil, false
			}
			i++
			for j := 0; j < k; j++ {
				if !sval() {
					return "", nil, false
				}
			}
		default:
			return "", nil, false
		}
		fvals = append(fvals, strings.Join(t[start:i], " "))
	}
	if i != len(t) {
		return "", nil, false
	}
	return t[0], fvals, true
}

func c08Tolerable(ci any, implObs, modelObs string) bool {
	c, ok := ci.(*c08Case)
	if !ok || c.Kind != "struct" || c.Source == "json" || c.Source == "xml" {
		return false // value binder: everything observed is constrained; decoded bodies have no model line
	}
	iS, iF, ok1 := c08TolFVals(implObs)
	mS, mF, ok2 := c08TolFVals(modelObs)
	if !ok1 || !ok2 || iS != "1" || mS != "1" || len(iF) != len(mF) {
		return false
	}
	_, infos := c08Catalogue()
	data, data2 := c08StructData(c)
	var present []c08FieldInfo
	for _, info := range infos {
		_, a := data[info.Name]
		_, b := data2[info.Name]
		if a || b {
			present = append(present, info)
		}
	}
	if len(present) != len(iF) {
		return false
	}
	// the field the failing bind was converting: first in walk order with a text that does not fit, path pass first
	bad := func(info c08FieldInfo, d map[string][]string) bool {
		want, ok := d[info.Name]
		if !ok {
			return false
		}
		if info.Wrap < 2 {
			want = want[:1]
		}
		for _, s := range want {
			if _, ok := c08Denote(info.Fam, info.E, c08StructDefault(info.Fam, s)); !ok {
				return true
			}
		}
		return false
	}
	failing, pass := -1, 0
	for p, d := range []map[string][]string{data, data2} {
		for k, info := range present {
			if bad(info, d) {
				failing, pass = k, p
				break
			}
		}
		if failing >= 0 {
			break
		}
	}
	if failing < 0 {
		return false
	}
	differs := false
	for k := range iF {
		if iF[k] == mF[k] {
			continue
		}
		if k != failing {
			return false // another field differs
		}
		differs = true
	}
	if !differs {
		return false
	}
	info := present[failing]
	if c.Prepop { // the pointer was not nil before the call
		return false
	}
	if _, boundBefore := data[info.Name]; pass == 1 && boundBefore {
		return false // the path pass had already bound it
	}
	var zero string
	switch info.Wrap {
	case 1:
		zero = "0 " + c08SVal(info.Fam, c08ZeroCanonOf(info))
	case 4:
		zero = "3"
	case 6:
		zero = "2 0"
	default:
		return false // not a pointer field
	}
	legal := func(s string) bool { return s == "1" || s == zero }
	return legal(iF[failing]) && legal(mF[failing])
}
