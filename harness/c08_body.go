package main

// C08 / C09, round 6: request bodies of UNKNOWN length.  A body may arrive without a declared
// length (`ContentLength == -1`: a streaming client, `Transfer-Encoding: chunked`); binding must
// treat it exactly like the same bytes with a Content-Length.  Helpers shared by both harnesses:
// building such requests in-process, sending them through a real net/http server, and JSON / XML
// bodies for the C08 catalogue struct (judged against the standard library decoding the same bytes).

import (
	"bytes"
	"encoding/json"
	"encoding/xml"
	"fmt"
	"io"
	"net/http"
	"net/http/httptest"
	"reflect"
	"strconv"
	"strings"
	"sync"
	"sync/atomic"

	"github.com/labstack/echo/v4"
)

// onlyReader hides the length (and every optional interface) of the body from net/http
type onlyReader struct{ io.Reader }

// lenMode: "" exact | "unknown" (ContentLength -1) | "chunked" (ContentLength -1 and
// TransferEncoding chunked, as a server hands it to the handler) | "zero" (ContentLength 0 although
// a body is present; C09 only).  "server" is handled by verifServe.
func verifBodyRequest(method, target string, body []byte, lenMode string) *http.Request {
	var req *http.Request
	switch {
	case body == nil:
		req = httptest.NewRequest(method, target, nil)
	case lenMode == "unknown" || lenMode == "chunked":
		req = httptest.NewRequest(method, target, onlyReader{bytes.NewReader(body)})
		req.ContentLength = -1
		if lenMode == "chunked" {
			req.TransferEncoding = []string{"chunked"}
		}
	default:
		req = httptest.NewRequest(method, target, bytes.NewReader(body))
	}
	if lenMode == "zero" {
		req.ContentLength = 0
	}
	return req
}

// ---- one real server per process; the handler of a request is looked up by a header

var (
	verifSrvOnce sync.Once
	verifSrv     *httptest.Server
	verifSrvFns  sync.Map // id -> func(echo.Context)
	verifSrvSeq  int64
)

const verifCaseHeader = "X-Verif-Case"

func verifServer() *httptest.Server {
	verifSrvOnce.Do(func() {
		e := echo.New()
		e.HideBanner = true
		e.Any("/", func(c echo.Context) error {
			if f, ok := verifSrvFns.Load(c.Request().Header.Get(verifCaseHeader)); ok {
				f.(func(echo.Context))(c)
			}
			return c.NoContent(http.StatusNoContent)
		})
		verifSrv = httptest.NewServer(e)
	})
	return verifSrv
}

// verifServe sends the request over a loopback connection with a body of unknown length (the Go
// client then uses Transfer-Encoding: chunked) and runs fn inside the handler.  ok=false: the
// request could not be delivered (the case falls back to the in-process form).
func verifServe(method, target string, body []byte, header http.Header, fn func(c echo.Context)) (ok bool) {
	srv := verifServer()
	id := strconv.FormatInt(atomic.AddInt64(&verifSrvSeq, 1), 10)
	ran := false
	verifSrvFns.Store(id, func(c echo.Context) { ran = true; fn(c) })
	defer verifSrvFns.Delete(id)
	var rd io.Reader
	if body != nil {
		rd = onlyReader{bytes.NewReader(body)}
	}
	req, err := http.NewRequest(method, srv.URL+target, rd)
	if err != nil {
		return false
	}
	for k, v := range header {
		req.Header[k] = v
	}
	req.Header.Set(verifCaseHeader, id)
	res, err := srv.Client().Do(req)
	if err != nil {
		return false
	}
	io.Copy(io.Discard, res.Body)
	res.Body.Close()
	return ran
}

// ---- application-supplied framework parts (round 7)

// verifRawJSON is an application JSONSerializer as people write them around other JSON libraries:
// it returns the decoder's errors as they are (no *echo.HTTPError).  `strict` rejects unknown fields.
type verifRawJSON struct{ strict bool }

func (verifRawJSON) Serialize(c echo.Context, i interface{}, indent string) error {
	return echo.DefaultJSONSerializer{}.Serialize(c, i, indent)
}

func (s verifRawJSON) Deserialize(c echo.Context, i interface{}) error {
	d := json.NewDecoder(c.Request().Body)
	if s.strict {
		d.DisallowUnknownFields()
	}
	return d.Decode(i)
}

// verifDelegatingBinder is an application Binder that delegates to the default one
type verifDelegatingBinder struct{ calls *int }

func (b verifDelegatingBinder) Bind(i interface{}, c echo.Context) error {
	if b.calls != nil {
		*b.calls++
	}
	return (&echo.DefaultBinder{}).Bind(i, c)
}

// ---- JSON / XML bodies for the C08 catalogue struct

var jsonNumberLike = func(s string) bool {
	var n json.Number
	return json.Unmarshal([]byte(s), &n) == nil && s != "" && (s[0] == '-' || (s[0] >= '0' && s[0] <= '9'))
}

func c08JSONScalar(s string) string {
	if jsonNumberLike(s) || s == "true" || s == "false" || s == "null" {
		return s
	}
	b, _ := json.Marshal(s)
	return string(b)
}

// {"FI8": 128, "FLI16": [1, "x"], …}: numeric-looking texts are sent as JSON numbers
func c08JSONBody(present []c08FieldInfo, data map[string][]string) []byte {
	var parts []string
	for _, info := range present {
		vals := data[info.Name]
		key := "F" + strings.ToUpper(info.Name)
		if info.Wrap >= 2 && info.Wrap != 5 && info.Wrap != 6 {
			var el []string
			for _, v := range vals {
				el = append(el, c08JSONScalar(v))
			}
			parts = append(parts, fmt.Sprintf("%q:[%s]", key, strings.Join(el, ",")))
		} else {
			parts = append(parts, fmt.Sprintf("%q:%s", key, c08JSONScalar(vals[0])))
		}
	}
	return []byte("{" + strings.Join(parts, ",") + "}")
}

func c08XMLBody(present []c08FieldInfo, data map[string][]string) []byte {
	var sb bytes.Buffer
	sb.WriteString("<r>")
	for _, info := range present {
		key := "F" + strings.ToUpper(info.Name)
		for _, v := range data[info.Name] {
			sb.WriteString("<" + key + ">")
			xml.EscapeText(&sb, []byte(v))
			sb.WriteString("</" + key + ">")
		}
	}
	sb.WriteString("</r>")
	return sb.Bytes()
}

// what encoding/json | encoding/xml make of the same bytes on an identically prepared destination
func c08DecodeReference(kind string, body []byte, dst reflect.Value) (err error) {
	defer func() {
		if p := recover(); p != nil {
			err = fmt.Errorf("decoder panicked: %v", p)
		}
	}()
	if kind == "json" {
		return json.NewDecoder(bytes.NewReader(body)).Decode(dst.Interface())
	}
	return xml.NewDecoder(bytes.NewReader(body)).Decode(dst.Interface())
}
