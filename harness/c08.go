package main

// C08 — binding converts text exactly or rejects it; never wraps, never panics.
//
// Real code: echo.ValueBinder (every exported method with signature (string, *T) or
// (string, *[]T), enumerated by reflection; BindWithDelimiter; the unmarshaler methods) and the
// struct binder (c.Bind, DefaultBinder.BindQueryParams / BindPathParams / BindHeaders, form and
// multipart bodies) on a catalogue struct with every scalar / pointer / slice field kind.
// Model: lean/EchoModel/C08.lean (vbRun, structBind).
// Oracle (model-free): math/big evaluation of what the text denotes; stored == denoted or a
// 400-class error; destination unchanged on error; nothing written while frozen; no panic.

import (
	"bytes"
	"encoding"
	"encoding/json"
	"errors"
	"fmt"
	"math/big"
	"mime/multipart"
	"net/http"
	"net/http/httptest"
	"net/url"
	"reflect"
	"sort"
	"strconv"
	"strings"
	"sync"
	"time"

	"github.com/labstack/echo/v4"
)

// ---------- case types ----------

type c08Call struct {
	Method  string   `json:"m"`
	Elem    string   `json:"elem,omitempty"` // BindWithDelimiter: "[]int8" …; unsupported: "[]time.Time", "int64", "nonptr"
	Values  []string `json:"v"`              // nil = parameter absent
	Delim   string   `json:"delim,omitempty"`
	Init    []string `json:"init,omitempty"` // canonical rendering of the initial destination value(s)
	InitNil bool     `json:"init_nil,omitempty"`
	Layout  string   `json:"layout,omitempty"` // Time / MustTime / Times / MustTimes: the layout argument
	// long value lists, written compactly: Pad texts (PadTexts cycled) come BEFORE Values — as that many
	// separate values of the parameter, or (PadJoin, delimiter calls) as that many pieces joined with Delim
	// in front of the first value
	Pad      int      `json:"pad,omitempty"`
	PadTexts []string `json:"pad_texts,omitempty"`
	PadJoin  bool     `json:"pad_join,omitempty"`
}

// c08Expand: pad texts (cycled) followed by the explicit values
func c08Expand(values []string, pad int, padTexts []string) []string {
	if pad <= 0 || len(padTexts) == 0 {
		return values
	}
	out := make([]string, 0, pad+len(values))
	for i := 0; i < pad; i++ {
		out = append(out, padTexts[i%len(padTexts)])
	}
	return append(out, values...)
}

// all: the values of the parameter as the request carries them
func (cl *c08Call) all() []string {
	if cl.Pad > 0 && cl.PadJoin && len(cl.PadTexts) > 0 {
		first := strings.Join(c08Expand(nil, cl.Pad, cl.PadTexts), cl.Delim)
		if len(cl.Values) == 0 {
			return []string{first}
		}
		return append([]string{first + cl.Delim + cl.Values[0]}, cl.Values[1:]...)
	}
	return c08Expand(cl.Values, cl.Pad, cl.PadTexts)
}

// c08L renders a list of texts in failure messages: long lists are abbreviated
type c08L []string

func (l c08L) String() string {
	if len(l) <= 12 {
		return fmt.Sprintf("%q", []string(l))
	}
	return fmt.Sprintf("[%d texts: %q %q %q … %q %q %q]", len(l), l[0], l[1], l[2], l[len(l)-3], l[len(l)-2], l[len(l)-1])
}

// c08CountTag: evidence bucket for the number of values / pieces one destination receives
func c08CountTag(n int) string {
	switch {
	case n > 65536:
		return "many-values:65537+"
	case n > 4096:
		return "many-values:4097+"
	case n > 1024:
		return "many-values:1025+"
	case n > 256:
		return "many-values:257+"
	case n > 64:
		return "many-values:65+"
	}
	return ""
}

// a CustomFunc / MustCustomFunc call; the user function is c08CustomApply(Mode, …)
type c08Custom struct {
	Must     bool     `json:"must,omitempty"`
	Values   []string `json:"v"`
	Mode     string   `json:"mode,omitempty"` // "" strict | sloppy (writes even when it fails) | empty (returns []error{} when fine)
	Init     []string `json:"init,omitempty"`
	InitNil  bool     `json:"init_nil,omitempty"`
	Pad      int      `json:"pad,omitempty"` // that many texts (PadTexts cycled) before Values
	PadTexts []string `json:"pad_texts,omitempty"`
}

func (cu *c08Custom) all() []string { return c08Expand(cu.Values, cu.Pad, cu.PadTexts) }

// the user function of the harness: one error per value starting with `!`; stores the values
func c08CustomApply(mode string, values []string, dest *[]string) []error {
	var errs []error
	for _, v := range values {
		if strings.HasPrefix(v, "!") {
			errs = append(errs, echo.NewBindingError("custom", []string{v}, "rejected by the custom function", nil))
		}
	}
	if len(errs) == 0 || mode == "sloppy" {
		*dest = append([]string{}, values...)
	}
	if errs == nil && mode == "empty" {
		return []error{}
	}
	return errs
}

type c08Op struct {
	Kind   string     `json:"k"` // call | custom | failfast | binderror | binderrors
	Call   *c08Call   `json:"call,omitempty"`
	Custom *c08Custom `json:"custom,omitempty"`
	Flag   bool       `json:"flag,omitempty"`
}

type c08Field struct {
	Name     string   `json:"name"`
	Values   []string `json:"v"`
	Pad      int      `json:"pad,omitempty"` // that many texts (PadTexts cycled) before Values: long value lists, written compactly
	PadTexts []string `json:"pad_texts,omitempty"`
}

func (f c08Field) all() []string { return c08Expand(f.Values, f.Pad, f.PadTexts) }

type c08Case struct {
	Kind     string     `json:"kind"`             // vb | struct
	Binder   string     `json:"binder,omitempty"` // vb: "" / query = QueryParamsBinder, form = FormFieldBinder (POST body), multipart = FormFieldBinder (multipart body), path = PathParamsBinder
	FailFast bool       `json:"failfast,omitempty"`
	Ops      []c08Op    `json:"ops,omitempty"`
	Source   string     `json:"source,omitempty"`   // struct: query | bind-get | form | multipart | json | xml | header | param | param+query
	LenMode  string     `json:"len_mode,omitempty"` // struct, body sources: "" Content-Length | unknown (-1) | chunked (-1 + TransferEncoding) | server (real connection, chunked upload)
	Fields   []c08Field `json:"fields,omitempty"`
	Fields2  []c08Field `json:"fields2,omitempty"`    // param+query: the query string (Fields = path params), bound by c.Bind
	Prepop   bool       `json:"prepop,omitempty"`     // struct: destination pre-populated with non-zero sentinels
	ErrFunc  string     `json:"errfunc,omitempty"`    // vb: the binder's ErrorFunc: "" default (NewBindingError) | nil (returns nil) | plain (returns errors.New)
	Serial   string     `json:"serializer,omitempty"` // struct, json source: "" default JSONSerializer | raw (application serializer returning the decoder's plain errors)
	Default  bool       `json:"default,omitempty"`    // vb: the binder is used as its constructor returns it, FailFast is never called before the first op (documented default: enabled)
}

// ---------- destination types of the harness ----------

type c08Unm struct{ V string }

// c08UnmErr: every unmarshaler of the harness rejects text starting with `!`.  The error VALUE it
// rejects with varies with the text — a plain error, or an *echo.HTTPError of another class
// (`!500…` ErrInternalServerError, `!502…`, `!415…` ErrUnsupportedMediaType, `!400…`, `!404…`):
// client text that the destination rejects is a 400 whatever the destination's error looks like.
func c08UnmErr(s string) error {
	switch {
	case !strings.HasPrefix(s, "!"):
		return nil
	case strings.HasPrefix(s, "!500"):
		return echo.ErrInternalServerError
	case strings.HasPrefix(s, "!502"):
		return echo.NewHTTPError(http.StatusBadGateway, "upstream said no")
	case strings.HasPrefix(s, "!415"):
		return echo.ErrUnsupportedMediaType
	case strings.HasPrefix(s, "!400"):
		return echo.NewHTTPError(http.StatusBadRequest, "bad")
	case strings.HasPrefix(s, "!404"):
		return echo.ErrNotFound
	case strings.HasPrefix(s, "!wrap"):
		return fmt.Errorf("wrapped: %w", echo.ErrInternalServerError)
	}
	return errors.New("rejected by the unmarshaler")
}
func (u *c08Unm) UnmarshalParam(s string) error {
	if err := c08UnmErr(s); err != nil {
		return err
	}
	u.V = s
	return nil
}
func (u *c08Unm) UnmarshalJSON(b []byte) error { return u.UnmarshalParam(string(b)) }

type c08Text struct{ V string }

func (u *c08Text) UnmarshalText(b []byte) error {
	if err := c08UnmErr(string(b)); err != nil {
		return err
	}
	u.V = string(b)
	return nil
}

// c08Multi implements only the multi-value interface of bind.go (`UnmarshalParams([]string)`):
// it stores ALL values of its key; it fails, before writing, iff one of them starts with `!`.
type c08Multi struct{ V []string }

func (u *c08Multi) UnmarshalParams(values []string) error {
	for _, s := range values {
		if err := c08UnmErr(s); err != nil {
			return err
		}
	}
	u.V = append([]string{}, values...)
	return nil
}

// Named types of builtin kind with their own unmarshaler, whose meaning differs from strconv's:
// bind.go must convert them with their method everywhere (scalar, pointer, every slice element).
type c08Hex int32 // hexadecimal, 32 bits (TextUnmarshaler)

func (h *c08Hex) UnmarshalText(b []byte) error {
	n, err := strconv.ParseInt(string(b), 16, 32)
	if err != nil {
		return err
	}
	*h = c08Hex(n)
	return nil
}

type c08Pct uint8 // decimal, 0..100 only (BindUnmarshaler)

func (p *c08Pct) UnmarshalParam(s string) error {
	n, err := strconv.ParseUint(s, 10, 8)
	if err != nil {
		return err
	}
	if n > 100 {
		return errors.New("percent out of range")
	}
	*p = c08Pct(n)
	return nil
}

type c08Flag bool // on / off (BindUnmarshaler); strconv's spellings are rejected

func (f *c08Flag) UnmarshalParam(s string) error {
	switch s {
	case "on":
		*f = true
	case "off":
		*f = false
	default:
		return errors.New("flag must be on or off")
	}
	return nil
}

type c08Word string // stored upper-cased; `!…` rejected (TextUnmarshaler)

func (w *c08Word) UnmarshalText(b []byte) error {
	if err := c08UnmErr(string(b)); err != nil {
		return err
	}
	*w = c08Word(strings.ToUpper(string(b)))
	return nil
}

type c08Ratio float64 // `a/b` (BindUnmarshaler)

func (x *c08Ratio) UnmarshalParam(s string) error {
	a, b, ok := strings.Cut(s, "/")
	if !ok {
		return errors.New("ratio must be a/b")
	}
	n, err1 := strconv.ParseInt(a, 10, 32)
	d, err2 := strconv.ParseInt(b, 10, 32)
	if err1 != nil || err2 != nil || d == 0 {
		return errors.New("bad ratio")
	}
	*x = c08Ratio(float64(n) / float64(d))
	return nil
}

// index = the model's `Elem.named k`
var c08NamedTypes = []reflect.Type{reflect.TypeOf(c08Hex(0)), reflect.TypeOf(c08Pct(0)), reflect.TypeOf(c08Flag(false)),
	reflect.TypeOf(c08Word("")), reflect.TypeOf(c08Ratio(0))}

func c08NamedIdx(t reflect.Type) int {
	for i, x := range c08NamedTypes {
		if x == t {
			return i
		}
	}
	return -1
}

// c08NamedParse: what the type's own method makes of the text (model-free denotation)
func c08NamedParse(t reflect.Type, s string) (string, bool) {
	v := reflect.New(t)
	var err error
	switch u := v.Interface().(type) {
	case echo.BindUnmarshaler:
		err = u.UnmarshalParam(s)
	case encoding.TextUnmarshaler:
		err = u.UnmarshalText([]byte(s))
	default:
		return "", false
	}
	if err != nil {
		return "", false
	}
	return c08Canon(v.Elem(), famNamed, 0), true
}

var (
	c08MultiT = reflect.TypeOf(c08Multi{})
	c08DurT   = reflect.TypeOf(time.Duration(0))
	c08TimeT  = reflect.TypeOf(time.Time{})
	c08UnmT   = reflect.TypeOf(c08Unm{})
	c08TextT  = reflect.TypeOf(c08Text{})
	c08VBT    = reflect.TypeOf((*echo.ValueBinder)(nil))
)

// wire families (lean/EchoModel/C08.lean pElem)
const (
	famInt = iota
	famUint
	famBool
	famFloat
	famDur
	famStr
	famUnm
	famUnix
	famByte
	famTime  // Time / MustTime / Times / MustTimes; the type index is the number of the layout within the case
	famNamed // named type of builtin kind with its own unmarshaler; the type index is its position in c08NamedTypes
)

// c08Classify maps a Go element type to the model's (family, type index).  structMode: the
// struct binder dispatches on reflect.Kind only (time.Duration is an int64 there).
func c08Classify(name string, E reflect.Type, structMode bool) (fam, ty int, ok bool) {
	if !structMode {
		switch E {
		case c08DurT:
			return famDur, 0, true
		case c08TimeT:
			switch strings.TrimPrefix(name, "Must") {
			case "UnixTime":
				return famUnix, 0, true
			case "UnixTimeMilli":
				return famUnix, 1, true
			case "UnixTimeNano":
				return famUnix, 2, true
			}
			return famTime, 0, true
		}
	}
	if E == c08UnmT || E == c08TextT {
		return famUnm, 0, true
	}
	if k := c08NamedIdx(E); k >= 0 {
		return famNamed, k, true
	}
	switch E.Kind() {
	case reflect.Int8:
		return famInt, 0, true
	case reflect.Int16:
		return famInt, 1, true
	case reflect.Int32:
		return famInt, 2, true
	case reflect.Int64:
		return famInt, 3, true
	case reflect.Int:
		return famInt, 4, true
	case reflect.Uint8:
		if n := strings.TrimPrefix(name, "Must"); n == "Byte" {
			return famByte, 0, true
		}
		return famUint, 0, true
	case reflect.Uint16:
		return famUint, 1, true
	case reflect.Uint32:
		return famUint, 2, true
	case reflect.Uint64:
		return famUint, 3, true
	case reflect.Uint:
		return famUint, 4, true
	case reflect.Bool:
		return famBool, 0, true
	case reflect.Float32:
		return famFloat, 0, true
	case reflect.Float64:
		return famFloat, 1, true
	case reflect.String:
		return famStr, 0, true
	}
	return 0, 0, false
}

// method info of one exported ValueBinder method usable as (string, dest)
type c08MI struct {
	Name  string
	Slice bool
	Must  bool
	Fam   int
	Ty    int
	T     reflect.Type // pointee type of the destination argument (iface methods: harness type)
	E     reflect.Type // element type
	Iface bool         // BindUnmarshaler / TextUnmarshaler / JSONUnmarshaler methods
	Extra bool         // the method takes a third argument of type string (the layout of Time …)
}

var (
	c08MethodsOnce sync.Once
	c08MethodList  []c08MI
	c08MethodMap   map[string]c08MI
	c08Skipped     []string
)

// c08Methods enumerates by reflection, so that a method added to ValueBinder later is probed too.
func c08Methods() []c08MI {
	c08MethodsOnce.Do(func() {
		c08MethodMap = map[string]c08MI{}
		bu := reflect.TypeOf((*echo.BindUnmarshaler)(nil)).Elem()
		tu := reflect.TypeOf((*encoding.TextUnmarshaler)(nil)).Elem()
		ju := reflect.TypeOf((*json.Unmarshaler)(nil)).Elem()
		for i := 0; i < c08VBT.NumMethod(); i++ {
			m := c08VBT.Method(i)
			ft := m.Type
			// (string, dest) and (string, dest, string): the latter are Time / MustTime / Times / MustTimes today
			extra := ft.NumIn() == 4 && ft.In(3).Kind() == reflect.String && ft.In(2).Kind() == reflect.Ptr
			if (ft.NumIn() != 3 && !extra) || ft.NumOut() != 1 || ft.Out(0) != c08VBT || ft.In(1).Kind() != reflect.String {
				continue
			}
			a := ft.In(2)
			mi := c08MI{Name: m.Name, Must: strings.HasPrefix(m.Name, "Must"), Extra: extra}
			switch {
			case a == bu || a == ju:
				mi.Iface, mi.Fam, mi.T, mi.E = true, famUnm, c08UnmT, c08UnmT
			case a == tu:
				mi.Iface, mi.Fam, mi.T, mi.E = true, famUnm, c08TextT, c08TextT
			case a.Kind() == reflect.Ptr:
				mi.T = a.Elem()
				mi.E = mi.T
				if mi.T.Kind() == reflect.Slice {
					mi.Slice = true
					mi.E = mi.T.Elem()
				}
				fam, ty, ok := c08Classify(m.Name, mi.E, false)
				if !ok || (mi.Slice && fam == famUnix) || (extra != (fam == famTime)) {
					c08Skipped = append(c08Skipped, m.Name)
					continue
				}
				mi.Fam, mi.Ty = fam, ty
			default:
				continue
			}
			c08MethodList = append(c08MethodList, mi)
			c08MethodMap[mi.Name] = mi
		}
	})
	return c08MethodList
}

// destination of a BindWithDelimiter call
func c08DelimDest(elem string) (mi c08MI, supported bool) {
	types := map[string]reflect.Type{
		"[]int8": reflect.TypeOf([]int8(nil)), "[]int16": reflect.TypeOf([]int16(nil)), "[]int32": reflect.TypeOf([]int32(nil)),
		"[]int64": reflect.TypeOf([]int64(nil)), "[]int": reflect.TypeOf([]int(nil)),
		"[]uint8": reflect.TypeOf([]uint8(nil)), "[]uint16": reflect.TypeOf([]uint16(nil)), "[]uint32": reflect.TypeOf([]uint32(nil)),
		"[]uint64": reflect.TypeOf([]uint64(nil)), "[]uint": reflect.TypeOf([]uint(nil)),
		"[]bool": reflect.TypeOf([]bool(nil)), "[]float32": reflect.TypeOf([]float32(nil)), "[]float64": reflect.TypeOf([]float64(nil)),
		"[]string": reflect.TypeOf([]string(nil)), "[]time.Duration": reflect.TypeOf([]time.Duration(nil)),
	}
	if t, ok := types[elem]; ok {
		mi = c08MI{Name: "BindWithDelimiter", Slice: true, T: t, E: t.Elem()}
		mi.Fam, mi.Ty, _ = c08Classify("", mi.E, false)
		return mi, true
	}
	switch elem {
	case "[]time.Time":
		t := reflect.TypeOf([]time.Time(nil))
		return c08MI{Name: "BindWithDelimiter", Slice: true, T: t, E: t.Elem(), Fam: famUnm}, false
	default: // "int64": pointer to a scalar
		t := reflect.TypeOf(int64(0))
		return c08MI{Name: "BindWithDelimiter", Slice: false, T: t, E: t, Fam: famUnm}, false
	}
}

var c08DelimElems = []string{"[]int8", "[]int16", "[]int32", "[]int64", "[]int", "[]uint8", "[]uint16", "[]uint32", "[]uint64", "[]uint",
	"[]bool", "[]float32", "[]float64", "[]string", "[]time.Duration"}

// ---------- canonical rendering of values ----------

// c08Canon renders a scalar reflect.Value canonically (what the model prints).
func c08Canon(v reflect.Value, fam, ty int) string {
	switch v.Type() {
	case c08TimeT:
		t := v.Interface().(time.Time)
		if fam == famTime {
			return c08TimeCanon(t)
		}
		switch ty {
		case 0:
			return strconv.FormatInt(t.Unix(), 10)
		case 1:
			return strconv.FormatInt(t.UnixMilli(), 10)
		default:
			return strconv.FormatInt(t.UnixNano(), 10)
		}
	case c08UnmT:
		return v.Interface().(c08Unm).V
	case c08TextT:
		return v.Interface().(c08Text).V
	}
	switch v.Kind() {
	case reflect.Int, reflect.Int8, reflect.Int16, reflect.Int32, reflect.Int64:
		return strconv.FormatInt(v.Int(), 10)
	case reflect.Uint, reflect.Uint8, reflect.Uint16, reflect.Uint32, reflect.Uint64:
		return strconv.FormatUint(v.Uint(), 10)
	case reflect.Bool:
		return strconv.FormatBool(v.Bool())
	case reflect.Float32:
		return strconv.FormatFloat(v.Float(), 'g', -1, 32)
	case reflect.Float64:
		return strconv.FormatFloat(v.Float(), 'g', -1, 64)
	case reflect.String:
		return v.String()
	}
	return "?" + v.Type().String()
}

// c08TimeCanon: instant and zone offset (not the zone name, not the Location pointer)
func c08TimeCanon(t time.Time) string {
	_, off := t.Zone()
	return fmt.Sprintf("%d.%09d@%d", t.Unix(), t.Nanosecond(), off)
}

func c08TimeFromCanon(canon string) (time.Time, bool) {
	var sec int64
	var nsec, off int
	if _, err := fmt.Sscanf(canon, "%d.%09d@%d", &sec, &nsec, &off); err != nil {
		return time.Time{}, false
	}
	t := time.Unix(sec, int64(nsec)).UTC()
	if off != 0 {
		t = t.In(time.FixedZone("", off))
	}
	return t, true
}

// c08Set stores a canonical rendering into a scalar (used for initial values only).
func c08Set(v reflect.Value, ty int, canon string) {
	switch v.Type() {
	case c08TimeT:
		if t, ok := c08TimeFromCanon(canon); ok && strings.Contains(canon, "@") {
			v.Set(reflect.ValueOf(t))
			return
		}
		n, _ := strconv.ParseInt(canon, 10, 64)
		var t time.Time
		switch ty {
		case 0:
			t = time.Unix(n, 0)
		case 1:
			t = time.UnixMilli(n)
		default:
			t = time.Unix(0, n)
		}
		v.Set(reflect.ValueOf(t))
		return
	case c08UnmT:
		v.Set(reflect.ValueOf(c08Unm{V: canon}))
		return
	case c08TextT:
		v.Set(reflect.ValueOf(c08Text{V: canon}))
		return
	}
	switch v.Kind() {
	case reflect.Int, reflect.Int8, reflect.Int16, reflect.Int32, reflect.Int64:
		n, _ := strconv.ParseInt(canon, 10, 64)
		v.SetInt(n)
	case reflect.Uint, reflect.Uint8, reflect.Uint16, reflect.Uint32, reflect.Uint64:
		n, _ := strconv.ParseUint(canon, 10, 64)
		v.SetUint(n)
	case reflect.Bool:
		v.SetBool(canon == "true")
	case reflect.Float32, reflect.Float64:
		f, _ := strconv.ParseFloat(canon, v.Type().Bits())
		v.SetFloat(f)
	case reflect.String:
		v.SetString(canon)
	}
}

// wire form of one scalar value
func c08SVal(fam int, canon string) string {
	switch fam {
	case famInt, famUint, famUnix, famByte:
		return "0 " + canon
	case famBool:
		if canon == "true" {
			return "1 1"
		}
		return "1 0"
	}
	return "2 " + wStr(canon)
}

func c08SVals(fam int, l []string) string {
	parts := []string{wInt(len(l))}
	for _, s := range l {
		parts = append(parts, c08SVal(fam, s))
	}
	return strings.Join(parts, " ")
}

// ---------- what a text denotes (model-free) ----------

var c08Bools = map[string]bool{"1": true, "t": true, "T": true, "TRUE": true, "true": true, "True": true,
	"0": false, "f": false, "F": false, "FALSE": false, "false": false, "False": false}

func c08AllDigits(s string) bool {
	if s == "" {
		return false
	}
	for i := 0; i < len(s); i++ {
		if s[i] < '0' || s[i] > '9' {
			return false
		}
	}
	return true
}

// c08BigOf: the integer denoted by `[+-]?[0-9]+` (signed) or `[0-9]+` (unsigned)
func c08BigOf(s string, signed bool) (*big.Int, bool) {
	body := s
	neg := false
	if signed && s != "" && (s[0] == '+' || s[0] == '-') {
		neg = s[0] == '-'
		body = s[1:]
	}
	if !c08AllDigits(body) {
		return nil, false
	}
	n := new(big.Int)
	ten := big.NewInt(10)
	for i := 0; i < len(body); i++ {
		n.Mul(n, ten)
		n.Add(n, big.NewInt(int64(body[i]-'0')))
	}
	if neg {
		n.Neg(n)
	}
	return n, true
}

func c08InRange(n *big.Int, signed bool, bits int) bool {
	one := big.NewInt(1)
	if signed {
		hi := new(big.Int).Lsh(one, uint(bits-1))
		lo := new(big.Int).Neg(hi)
		return n.Cmp(lo) >= 0 && n.Cmp(hi) < 0
	}
	hi := new(big.Int).Lsh(one, uint(bits))
	return n.Sign() >= 0 && n.Cmp(hi) < 0
}

// c08ExtTime: the answer of time.Parse for one layout
func c08ExtTime(layout, s string) (string, bool) {
	t, err := time.Parse(layout, s)
	if err != nil {
		return "", false
	}
	return c08TimeCanon(t), true
}

// c08DenoteL: c08Denote for every family, with the layout for famTime
func c08DenoteL(fam int, E reflect.Type, layout, s string) (string, bool) {
	if fam == famTime {
		return c08ExtTime(layout, s)
	}
	return c08Denote(fam, E, s)
}

// c08Ext: the answers of the parsers the model does not implement
func c08Ext(k int, s string) (string, bool) {
	if k >= 200 && k-200 < len(c08NamedTypes) {
		return c08NamedParse(c08NamedTypes[k-200], s)
	}
	switch k {
	case 32, 64:
		f, err := strconv.ParseFloat(s, k)
		if err != nil {
			return "", false
		}
		return strconv.FormatFloat(f, 'g', -1, k), true
	default:
		d, err := time.ParseDuration(s)
		if err != nil {
			return "", false
		}
		return strconv.FormatInt(int64(d), 10), true
	}
}

// c08Denote: the canonical rendering of the value `s` denotes for a destination element of
// Go type E, or ok=false when s is not a literal of a value that fits E.
func c08Denote(fam int, E reflect.Type, s string) (string, bool) {
	switch fam {
	case famInt, famUnix:
		bits := 64
		if fam == famInt {
			bits = E.Bits()
		}
		n, ok := c08BigOf(s, true)
		if !ok || !c08InRange(n, true, bits) {
			return "", false
		}
		return n.String(), true
	case famUint, famByte:
		n, ok := c08BigOf(s, false)
		if !ok || !c08InRange(n, false, E.Bits()) {
			return "", false
		}
		return n.String(), true
	case famBool:
		b, ok := c08Bools[s]
		return strconv.FormatBool(b), ok
	case famFloat:
		return c08Ext(E.Bits(), s)
	case famDur:
		return c08Ext(1, s)
	case famStr:
		return s, true
	case famUnm:
		if strings.HasPrefix(s, "!") {
			return "", false
		}
		return s, true
	case famNamed:
		return c08NamedParse(E, s)
	}
	return "", false
}

// ---------- ext table sent to the model ----------

type c08Table struct {
	seen    map[string]bool
	toks    []string
	n       int
	layouts []string // layouts of the case, numbered in order of first use
}

func (t *c08Table) layout(l string) int {
	for i, x := range t.layouts {
		if x == l {
			return i
		}
	}
	t.layouts = append(t.layouts, l)
	return len(t.layouts) - 1
}

// addTime records the answer of time.Parse(layout, s) under the key 100 + number of the layout
func (t *c08Table) addTime(layout, s string) {
	k := 100 + t.layout(layout)
	key := strconv.Itoa(k) + "|" + s
	if t.seen == nil {
		t.seen = map[string]bool{}
	}
	if t.seen[key] {
		return
	}
	t.seen[key] = true
	r, ok := c08ExtTime(layout, s)
	t.n++
	if ok {
		t.toks = append(t.toks, wInt(k), wStr(s), "1", wStr(r))
	} else {
		t.toks = append(t.toks, wInt(k), wStr(s), "0")
	}
}

func (t *c08Table) add(k int, s string) {
	key := strconv.Itoa(k) + "|" + s
	if t.seen == nil {
		t.seen = map[string]bool{}
	}
	if t.seen[key] {
		return
	}
	t.seen[key] = true
	r, ok := c08Ext(k, s)
	t.n++
	if ok {
		t.toks = append(t.toks, wInt(k), wStr(s), "1", wStr(r))
	} else {
		t.toks = append(t.toks, wInt(k), wStr(s), "0")
	}
}

func (t *c08Table) addFor(fam int, E reflect.Type, s string) {
	switch fam {
	case famFloat:
		t.add(E.Bits(), s)
	case famDur:
		t.add(1, s)
	case famNamed:
		t.add(200+c08NamedIdx(E), s)
	}
}

func (t *c08Table) wire() string {
	return strings.Join(append([]string{wInt(t.n)}, t.toks...), " ")
}

// ---------- running a ValueBinder chain ----------

func c08RenderDest(mi c08MI, dest reflect.Value) (vals []string, isNil bool) {
	d := dest.Elem()
	if mi.T.Kind() == reflect.Slice {
		if d.IsNil() {
			return nil, true
		}
		for i := 0; i < d.Len(); i++ {
			vals = append(vals, c08Canon(d.Index(i), mi.Fam, mi.Ty))
		}
		return vals, false
	}
	return []string{c08Canon(d, mi.Fam, mi.Ty)}, false
}

func c08DValWire(mi c08MI, vals []string, isNil bool) string {
	if mi.T.Kind() == reflect.Slice {
		if isNil {
			return "1"
		}
		return "2 " + c08SVals(mi.Fam, vals)
	}
	return "0 " + c08SVal(mi.Fam, vals[0])
}

func c08Same(a []string, an bool, b []string, bn bool) bool {
	if an != bn || len(a) != len(b) {
		return false
	}
	for i := range a {
		if a[i] != b[i] {
			return false
		}
	}
	return true
}

func c08RunVB(c *c08Case) (res Result) {
	var tags []string
	oracle := ""
	fail := func(i int, format string, a ...any) {
		if oracle == "" {
			oracle = fmt.Sprintf("op %d: ", i) + fmt.Sprintf(format, a...)
		}
	}
	defer func() {
		if p := recover(); p != nil {
			res = Result{Ops: res.Ops, Obs: "panic", Oracle: fmt.Sprintf("harness-level panic: %v", p), Tags: tags}
		}
	}()
	c08Methods()
	q := url.Values{}
	var pnames, pvalues []string
	for i, op := range c.Ops {
		var vals []string
		if op.Kind == "call" && op.Call != nil {
			vals = op.Call.all()
		} else if op.Kind == "custom" && op.Custom != nil {
			vals = op.Custom.all()
		}
		for _, v := range vals {
			q.Add("p"+strconv.Itoa(i), v)
		}
		if len(vals) > 0 {
			pnames = append(pnames, "p"+strconv.Itoa(i))
			pvalues = append(pvalues, vals[0])
		}
	}
	e := echo.New()
	var b *echo.ValueBinder
	switch c.Binder {
	case "form":
		req := httptest.NewRequest(http.MethodPost, "/", strings.NewReader(q.Encode()))
		req.Header.Set(echo.HeaderContentType, echo.MIMEApplicationForm)
		b = echo.FormFieldBinder(e.NewContext(req, httptest.NewRecorder()))
	case "multipart": // FormFieldBinder over a multipart body (Request.Form is filled by ParseMultipartForm)
		var buf bytes.Buffer
		mw := multipart.NewWriter(&buf)
		for i, op := range c.Ops {
			var vals []string
			if op.Kind == "call" && op.Call != nil {
				vals = op.Call.all()
			} else if op.Kind == "custom" && op.Custom != nil {
				vals = op.Custom.all()
			}
			for _, v := range vals {
				mw.WriteField("p"+strconv.Itoa(i), v)
			}
		}
		mw.Close()
		req := httptest.NewRequest(http.MethodPost, "/", &buf)
		req.Header.Set(echo.HeaderContentType, mw.FormDataContentType())
		b = echo.FormFieldBinder(e.NewContext(req, httptest.NewRecorder()))
	case "path":
		ctx := e.NewContext(httptest.NewRequest(http.MethodGet, "/", nil), httptest.NewRecorder())
		ctx.SetParamNames(pnames...)
		ctx.SetParamValues(pvalues...)
		b = echo.PathParamsBinder(ctx)
	default:
		req := httptest.NewRequest(http.MethodGet, "/?"+q.Encode(), nil)
		b = echo.QueryParamsBinder(e.NewContext(req, httptest.NewRecorder()))
	}
	// what ValuesFunc returns for a call (PathParamsBinder: one value, "" counts as absent)
	seen := func(vals []string) []string {
		if c.Binder != "path" {
			return vals
		}
		if len(vals) == 0 || vals[0] == "" {
			return nil
		}
		return vals[:1]
	}
	created := 0
	badErr := ""
	var recorded []error // every error handed to the binder since the last reset, in order (nil included)
	orig := b.ErrorFunc
	b.ErrorFunc = func(sourceParam string, values []string, message interface{}, internalError error) error {
		created++
		var err error
		switch c.ErrFunc {
		case "nil": // the application reports the problem itself and hands nothing to the binder
			err = nil
		case "plain":
			err = errors.New("application error for " + sourceParam)
		default:
			err = orig(sourceParam, values, message, internalError)
			var be *echo.BindingError
			if !errors.As(err, &be) || be.HTTPError == nil || be.Code != http.StatusBadRequest {
				badErr = fmt.Sprintf("error is not a 400 BindingError: %v", err)
			}
		}
		recorded = append(recorded, err)
		return err
	}
	if c.ErrFunc != "" {
		tags = append(tags, "errorfunc:"+c.ErrFunc)
	}
	startFF := c.FailFast
	if c.Default {
		startFF = true // "FailFast … Enabled by default", for every constructor
	} else {
		b.FailFast(c.FailFast)
	}

	tbl := &c08Table{}
	efNil := wBool(c.ErrFunc == "nil")
	ops := []string{"0", wBool(c.FailFast), efNil, wInt(len(c.Ops))}
	if c.Default {
		ctor := map[string]string{"": "0", "query": "0", "path": "1", "form": "2", "multipart": "2"}[c.Binder]
		ops = []string{"3", ctor, efNil, wInt(len(c.Ops))}
		tags = append(tags, "ctor-default:"+c.Binder)
	}
	var obs []string
	pending := 0
	failFast := startFF
	nontrivial := false
	hadErrThenCall := false
	modelOK := true
	strsMI := c08MI{Name: "CustomFunc", Slice: true, T: reflect.TypeOf([]string(nil)), E: reflect.TypeOf(""), Fam: famStr}
	// rendering an error must not panic either (BindingError.Error)
	render := func(i int, err error) {
		defer func() {
			if p := recover(); p != nil {
				fail(i, "Error() of a recorded binding error panicked: %v", p)
			}
		}()
		if err != nil && err.Error() == "" {
			fail(i, "a recorded binding error renders as the empty string")
		}
	}
	for i, op := range c.Ops {
		switch op.Kind {
		case "custom":
			if op.Custom == nil {
				continue
			}
			cu := op.Custom
			vals := seen(cu.all())
			if t := c08CountTag(len(vals)); t != "" {
				tags = append(tags, t)
			}
			dest := new([]string)
			if !cu.InitNil {
				*dest = append([]string{}, cu.Init...)
			}
			initVals, initNil := c08RenderDest(strsMI, reflect.ValueOf(dest))
			// what the function does when it is invoked on these values (computed on a copy)
			alone := new([]string)
			if !cu.InitNil {
				*alone = append([]string{}, cu.Init...)
			}
			aloneErrs := len(c08CustomApply(cu.Mode, vals, alone))
			aloneVals, aloneNil := c08RenderDest(strsMI, reflect.ValueOf(alone))
			invoked, returned := 0, 0
			var got []string
			fn := func(values []string) []error {
				invoked++
				got = append([]string(nil), values...)
				errs := c08CustomApply(cu.Mode, values, dest)
				returned += len(errs)
				recorded = append(recorded, errs...)
				return errs
			}
			before := created
			panicked := ""
			func() {
				defer func() {
					if p := recover(); p != nil {
						panicked = fmt.Sprint(p)
					}
				}()
				if cu.Must {
					b.MustCustomFunc("p"+strconv.Itoa(i), fn)
				} else {
					b.CustomFunc("p"+strconv.Itoa(i), fn)
				}
			}()
			if panicked != "" {
				fail(i, "CustomFunc panicked: %s", panicked)
				obs = append(obs, "panic")
				modelOK = false
				continue
			}
			// errors recorded by this op: those echo created itself + those the function handed back
			delta := created - before + returned
			vals2, isNil := c08RenderDest(strsMI, reflect.ValueOf(dest))
			changed := !c08Same(vals2, isNil, initVals, initNil)
			ops = append(ops, "4", wBool(cu.Must), wStrs(vals), c08DValWire(strsMI, initVals, initNil),
				c08DValWire(strsMI, aloneVals, aloneNil), wInt(aloneErrs))
			obs = append(obs, c08DValWire(strsMI, vals2, isNil), wInt(delta))
			tag := "vb:CustomFunc"
			if cu.Must {
				tag = "vb:MustCustomFunc"
			}
			tags = append(tags, tag)
			if pending > 0 {
				hadErrThenCall = true
			}
			switch {
			case failFast && pending > 0:
				tags = append(tags, "frozen")
				if invoked != 0 || changed || delta != 0 {
					fail(i, "fail-fast binder with a recorded error: the custom function was invoked %d times (destination %v -> %v, %d new errors)", invoked, c08L(initVals), c08L(vals2), delta)
				}
			case len(vals) == 0:
				tags = append(tags, "absent")
				want := 0
				if cu.Must {
					want = 1
				}
				if invoked != 0 || changed {
					fail(i, "CustomFunc: absent parameter but the function was invoked %d times (destination %v -> %v)", invoked, c08L(initVals), c08L(vals2))
				}
				if delta != want {
					fail(i, "CustomFunc: absent parameter recorded %d errors, want %d", delta, want)
				}
			default:
				tags = append(tags, "custom-invoked")
				if invoked != 1 {
					fail(i, "CustomFunc: parameter present but the function was invoked %d times", invoked)
				} else if !c08Same(got, false, vals, false) {
					fail(i, "CustomFunc: the function received %v, the request carries %v", c08L(got), c08L(vals))
				}
				nontrivial = true
			}
			pending += delta
		case "failfast":
			b.FailFast(op.Flag)
			failFast = op.Flag
			ops = append(ops, "1", wBool(op.Flag))
			tags = append(tags, "op:failfast")
		case "binderror":
			err := b.BindError()
			ops = append(ops, "2")
			obs = append(obs, wBool(err != nil))
			// BindError() hands out the FIRST error recorded since the last reset (nil if the
			// application's ErrorFunc returned nil for it), or nil when nothing was recorded
			var first error
			if len(recorded) > 0 {
				first = recorded[0]
			}
			if err != first {
				fail(i, "BindError() = %v, the first error recorded since the last reset is %v (%d recorded)", err, first, pending)
			}
			if c.ErrFunc == "" && (err != nil) != (pending > 0) {
				fail(i, "BindError() = %v although %d errors were recorded since the last reset", err, pending)
			}
			if err != nil {
				var be *echo.BindingError
				if c.ErrFunc == "" && (!errors.As(err, &be) || be.Code != http.StatusBadRequest) {
					fail(i, "BindError() is not a 400-class BindingError: %v", err)
				}
				render(i, err)
			}
			pending, recorded = 0, nil
			tags = append(tags, "op:binderror")
		case "binderrors":
			errs := b.BindErrors()
			ops = append(ops, "3")
			obs = append(obs, wInt(len(errs)))
			if len(errs) != pending {
				fail(i, "BindErrors() returned %d errors, %d were recorded since the last reset", len(errs), pending)
			}
			for k, e := range errs {
				if k < len(recorded) && e != recorded[k] {
					fail(i, "BindErrors()[%d] = %v, the error recorded at that position is %v", k, e, recorded[k])
				}
				var be *echo.BindingError
				if e != nil && (c.ErrFunc == "" || errors.As(e, &be)) && (!errors.As(e, &be) || be.Code != http.StatusBadRequest) {
					fail(i, "BindErrors() holds an error that is not a 400-class BindingError: %v", e)
				}
				if e != nil {
					render(i, e)
				}
			}
			recorded = nil
			pending = 0
			tags = append(tags, "op:binderrors")
		case "call":
			cl := &c08Call{}
			*cl = *op.Call
			cl.Values = seen(op.Call.all())
			cl.Pad, cl.PadTexts, cl.PadJoin = 0, nil, false
			var mi c08MI
			supported := true
			isDelim := strings.HasSuffix(cl.Method, "BindWithDelimiter")
			if isDelim {
				mi, supported = c08DelimDest(cl.Elem)
				mi.Must = strings.HasPrefix(cl.Method, "Must")
			} else {
				var ok bool
				mi, ok = c08MethodMap[cl.Method]
				if !ok {
					// method no longer exists: nothing to run
					ops = append(ops, "1", wBool(failFast))
					tags = append(tags, "missing-method")
					continue
				}
			}
			if mi.Fam == famTime {
				mi.Ty = tbl.layout(cl.Layout)
			}
			dest := reflect.New(mi.T)
			if mi.T.Kind() == reflect.Slice {
				if !cl.InitNil {
					sl := reflect.MakeSlice(mi.T, len(cl.Init), len(cl.Init))
					for k, s := range cl.Init {
						c08Set(sl.Index(k), mi.Ty, s)
					}
					dest.Elem().Set(sl)
				}
			} else if len(cl.Init) > 0 {
				c08Set(dest.Elem(), mi.Ty, cl.Init[0])
			}
			initVals, initNil := c08RenderDest(mi, dest)
			before := created
			panicked := ""
			func() {
				defer func() {
					if p := recover(); p != nil {
						panicked = fmt.Sprint(p)
					}
				}()
				name := reflect.ValueOf("p" + strconv.Itoa(i))
				mv := reflect.ValueOf(b).MethodByName(cl.Method)
				switch {
				case isDelim && cl.Elem == "nonptr":
					mv.Call([]reflect.Value{name, dest.Elem(), reflect.ValueOf(cl.Delim)})
				case isDelim:
					mv.Call([]reflect.Value{name, dest, reflect.ValueOf(cl.Delim)})
				case mi.Extra:
					mv.Call([]reflect.Value{name, dest, reflect.ValueOf(cl.Layout)})
				default:
					mv.Call([]reflect.Value{name, dest})
				}
			}()
			if panicked != "" {
				fail(i, "%s panicked: %s", cl.Method, panicked)
				obs = append(obs, "panic")
				modelOK = false // a panic is never model behaviour; the oracle reports it
				continue
			}
			delta := created - before
			vals, isNil := c08RenderDest(mi, dest)
			changed := !c08Same(vals, isNil, initVals, initNil)

			// ---- ops / obs for the model
			shape := 0
			if isDelim {
				shape = 2
			} else if mi.Slice {
				shape = 1
			}
			ops = append(ops, "0", wInt(shape), wBool(mi.Must), wBool(supported), wInt(mi.Fam), wInt(mi.Ty),
				wStrs(cl.Values), wStr(cl.Delim), c08DValWire(mi, initVals, initNil))
			obs = append(obs, c08DValWire(mi, vals, isNil), wInt(delta))
			if isDelim && cl.Delim == "" {
				modelOK = false // strings.Split with an empty separator explodes into UTF-8 sequences: not modelled
			}

			// ---- the pieces this call converts
			var pieces []string
			present := false
			switch {
			case isDelim:
				present = len(cl.Values) > 0
				for _, v := range cl.Values {
					pieces = append(pieces, strings.Split(v, cl.Delim)...)
				}
			case mi.Slice:
				present = len(cl.Values) > 0
				pieces = cl.Values
			default:
				if len(cl.Values) > 0 && cl.Values[0] != "" {
					present = true
					pieces = []string{cl.Values[0]}
				}
			}
			for _, p := range pieces {
				if mi.Fam == famTime {
					tbl.addTime(cl.Layout, p)
				} else {
					tbl.addFor(mi.Fam, mi.E, p)
				}
			}

			// ---- oracle: the property itself
			frozen := failFast && pending > 0
			tag := "vb:" + cl.Method
			if isDelim {
				tag += ":" + cl.Elem
			}
			tags = append(tags, tag)
			if t := c08CountTag(len(pieces)); t != "" {
				tags = append(tags, t)
			}
			if pending > 0 {
				hadErrThenCall = true
			}
			switch {
			case frozen:
				tags = append(tags, "frozen")
				if changed || delta != 0 {
					fail(i, "fail-fast binder with a recorded error: %s wrote %v (was %v) / recorded %d new errors", cl.Method, c08L(vals), c08L(initVals), delta)
				}
			case !present:
				tags = append(tags, "absent")
				want := 0
				if mi.Must {
					want = 1
				}
				if changed {
					fail(i, "%s: absent/empty value but the destination changed from %v to %v", cl.Method, c08L(initVals), c08L(vals))
				}
				if delta != want {
					fail(i, "%s: absent/empty value recorded %d errors, want %d", cl.Method, delta, want)
				}
			case isDelim && !supported:
				tags = append(tags, "unsupported-dest")
				if changed || delta == 0 {
					fail(i, "BindWithDelimiter to an unsupported destination: changed=%v errors=%d", changed, delta)
				}
			default:
				var dens []string
				allOK := true
				for _, p := range pieces {
					d, ok := c08DenoteL(mi.Fam, mi.E, cl.Layout, p)
					if !ok {
						allOK = false
					}
					dens = append(dens, d)
				}
				exact := !isNil && c08Same(vals, false, dens, false)
				switch {
				case !allOK:
					tags = append(tags, "reject")
					if delta == 0 {
						fail(i, "%s: %v does not denote a value of %v but no error was recorded (stored %v)", cl.Method, c08L(pieces), mi.T, c08L(vals))
					}
					if changed {
						fail(i, "%s: failing call changed its destination from %v to %v (input %v)", cl.Method, c08L(initVals), c08L(vals), c08L(pieces))
					}
				case mi.Fam == famStr || pending == 0:
					tags = append(tags, "accept")
					if delta != 0 {
						fail(i, "%s: %v denotes %v, which fits %v, but %d errors were recorded", cl.Method, c08L(pieces), c08L(dens), mi.T, delta)
					} else if !exact {
						fail(i, "%s: %v denotes %v but the destination holds %v", cl.Method, c08L(pieces), c08L(dens), c08L(vals))
					}
				default:
					// non-fail-fast binder that already holds errors: scalar methods still write,
					// slice methods skip the assignment; either way the chain reports an error
					tags = append(tags, "accept-after-error")
					if delta != 0 {
						fail(i, "%s: valid input %v recorded %d errors", cl.Method, c08L(pieces), delta)
					}
					if changed && !exact {
						fail(i, "%s: %v denotes %v but the destination holds %v", cl.Method, c08L(pieces), c08L(dens), c08L(vals))
					}
				}
				for _, p := range pieces {
					if c08Interesting(p) {
						nontrivial = true
					}
				}
			}
			pending += delta
		}
	}
	if badErr != "" && oracle == "" {
		oracle = badErr
	}
	if hadErrThenCall {
		nontrivial = true
		tags = append(tags, "call-after-error")
	}
	tags = append(tags, fmt.Sprintf("chain-len:%d", len(c.Ops)), "binder:"+c.Binder)
	line := tbl.wire() + " " + strings.Join(ops, " ")
	if !modelOK {
		line = ""
		tags = append(tags, "not-modelled")
	}
	return Result{Ops: line, Obs: strings.Join(obs, " "), Oracle: oracle, Tags: tags, Nontrivial: nontrivial}
}

// ---------- the struct binder on the catalogue ----------

type c08FieldInfo struct {
	Name string
	Wrap int // 0 scalar 1 ptr 2 slice 3 slice of ptr 4 ptr to slice 5 multi-value unmarshaler 6 pointer to one
	Fam  int
	Ty   int
	E    reflect.Type
	Idx  int
}

var (
	c08CatOnce sync.Once
	c08CatT    reflect.Type
	c08CatInfo []c08FieldInfo
	c08CatByN  map[string]c08FieldInfo
)

func c08Catalogue() (reflect.Type, []c08FieldInfo) {
	c08CatOnce.Do(func() {
		scal := []struct {
			n string
			t reflect.Type
		}{
			{"i", reflect.TypeOf(int(0))}, {"i8", reflect.TypeOf(int8(0))}, {"i16", reflect.TypeOf(int16(0))},
			{"i32", reflect.TypeOf(int32(0))}, {"i64", reflect.TypeOf(int64(0))},
			{"u", reflect.TypeOf(uint(0))}, {"u8", reflect.TypeOf(uint8(0))}, {"u16", reflect.TypeOf(uint16(0))},
			{"u32", reflect.TypeOf(uint32(0))}, {"u64", reflect.TypeOf(uint64(0))},
			{"b", reflect.TypeOf(false)}, {"f32", reflect.TypeOf(float32(0))}, {"f64", reflect.TypeOf(float64(0))},
			{"s", reflect.TypeOf("")}, {"d", c08DurT}, {"um", c08UnmT}, {"tu", c08TextT},
		}
		type ft struct {
			n string
			t reflect.Type
		}
		var all []ft
		for _, s := range scal {
			all = append(all, ft{s.n, s.t})
		}
		for _, s := range scal {
			all = append(all, ft{"p" + s.n, reflect.PtrTo(s.t)})
		}
		for _, s := range scal {
			all = append(all, ft{"l" + s.n, reflect.SliceOf(s.t)})
		}
		for _, n := range []int{2, 8, 11} { // []*int16, []*uint32, []*float32 …
			all = append(all, ft{"lp" + scal[n].n, reflect.SliceOf(reflect.PtrTo(scal[n].t))})
		}
		for _, n := range []int{1, 4, 7, 12} { // *[]int8, *[]int64, *[]uint16, *[]float64
			all = append(all, ft{"pl" + scal[n].n, reflect.PtrTo(reflect.SliceOf(scal[n].t))})
		}
		// destinations implementing only the multi-value interface UnmarshalParams([]string)
		all = append(all, ft{"mu", c08MultiT}, ft{"pmu", reflect.PtrTo(c08MultiT)})
		// named types of builtin kind with their own unmarshaler: T, *T, []T, []*T, *[]T
		for i, n := range []string{"hx", "pc", "fl", "wd", "rt"} {
			t := c08NamedTypes[i]
			all = append(all, ft{n, t}, ft{"p" + n, reflect.PtrTo(t)}, ft{"l" + n, reflect.SliceOf(t)},
				ft{"lp" + n, reflect.SliceOf(reflect.PtrTo(t))}, ft{"pl" + n, reflect.PtrTo(reflect.SliceOf(t))})
		}
		var fields []reflect.StructField
		c08CatByN = map[string]c08FieldInfo{}
		for i, f := range all {
			tag := fmt.Sprintf(`query:"%s" form:"%s" param:"%s" header:"%s"`, f.n, f.n, f.n, f.n)
			fields = append(fields, reflect.StructField{Name: "F" + strings.ToUpper(f.n), Type: f.t, Tag: reflect.StructTag(tag)})
			info := c08FieldInfo{Name: f.n, Idx: i}
			t := f.t
			switch {
			case t == c08MultiT:
				info.Wrap = 5
			case t == reflect.PtrTo(c08MultiT):
				info.Wrap, t = 6, c08MultiT
			case t.Kind() == reflect.Ptr && t.Elem().Kind() == reflect.Slice:
				info.Wrap, t = 4, t.Elem().Elem()
			case t.Kind() == reflect.Slice && t.Elem().Kind() == reflect.Ptr:
				info.Wrap, t = 3, t.Elem().Elem()
			case t.Kind() == reflect.Slice:
				info.Wrap, t = 2, t.Elem()
			case t.Kind() == reflect.Ptr:
				info.Wrap, t = 1, t.Elem()
			}
			info.E = t
			info.Fam, info.Ty, _ = c08Classify("", t, true)
			if t == c08MultiT {
				info.Fam = famUnm
			}
			c08CatInfo = append(c08CatInfo, info)
			c08CatByN[f.n] = info
		}
		c08CatT = reflect.StructOf(fields)
	})
	return c08CatT, c08CatInfo
}

// rendering of one catalogue field: wire form and canonical values
func c08FVal(info c08FieldInfo, v reflect.Value) (wire string, vals []string, state string) {
	if v.Kind() == reflect.Ptr {
		if v.IsNil() {
			return "1", nil, "nil"
		}
		v = v.Elem()
		if v.Kind() == reflect.Slice && v.IsNil() {
			return "3", nil, "ptrnil"
		}
	}
	if v.Type() == c08MultiT {
		vals = append(vals, v.Interface().(c08Multi).V...)
		return "2 " + c08SVals(info.Fam, vals), vals, "many"
	}
	if v.Kind() == reflect.Slice {
		if v.IsNil() {
			return "1", nil, "nil"
		}
		for i := 0; i < v.Len(); i++ {
			ev := v.Index(i)
			if ev.Kind() == reflect.Ptr {
				if ev.IsNil() {
					vals = append(vals, "<nil>")
					continue
				}
				ev = ev.Elem()
			}
			vals = append(vals, c08Canon(ev, info.Fam, info.Ty))
		}
		return "2 " + c08SVals(info.Fam, vals), vals, "many"
	}
	s := c08Canon(v, info.Fam, info.Ty)
	return "0 " + c08SVal(info.Fam, s), []string{s}, "one"
}

func c08StructDefault(fam int, s string) string {
	if s != "" {
		return s
	}
	switch fam {
	case famInt, famUint:
		return "0"
	case famBool:
		return "false"
	case famFloat:
		return "0.0"
	}
	return s
}

// c08Prepopulate sets every catalogue field to a non-zero sentinel: true, 7, 1.5, "init",
// non-nil pointers, one-element slices
func c08Prepopulate(v reflect.Value) {
	var set func(x reflect.Value)
	set = func(x reflect.Value) {
		switch x.Type() {
		case c08UnmT:
			x.Set(reflect.ValueOf(c08Unm{V: "init"}))
			return
		case c08TextT:
			x.Set(reflect.ValueOf(c08Text{V: "init"}))
			return
		case c08MultiT:
			x.Set(reflect.ValueOf(c08Multi{V: []string{"init"}}))
			return
		}
		switch x.Kind() {
		case reflect.Ptr:
			x.Set(reflect.New(x.Type().Elem()))
			set(x.Elem())
		case reflect.Slice:
			sl := reflect.MakeSlice(x.Type(), 1, 1)
			set(sl.Index(0))
			x.Set(sl)
		case reflect.Bool:
			x.SetBool(true)
		case reflect.Int, reflect.Int8, reflect.Int16, reflect.Int32, reflect.Int64:
			x.SetInt(7)
		case reflect.Uint, reflect.Uint8, reflect.Uint16, reflect.Uint32, reflect.Uint64:
			x.SetUint(7)
		case reflect.Float32, reflect.Float64:
			x.SetFloat(1.5)
		case reflect.String:
			x.SetString("init")
		}
	}
	for i := 0; i < v.NumField(); i++ {
		set(v.Field(i))
	}
}

func c08OptStrs(vals []string, ok bool) string {
	if !ok {
		return "0"
	}
	return "1 " + wStrs(vals)
}

func c08RunStruct(c *c08Case) (res Result) {
	catT, infos := c08Catalogue()
	var tags []string
	oracle := ""
	fail := func(format string, a ...any) {
		if oracle == "" {
			oracle = fmt.Sprintf(format, a...)
		}
	}
	twoPass := c.Source == "param+query"
	data, data2 := c08StructData(c)
	var present []c08FieldInfo
	for _, info := range infos {
		_, ok1 := data[info.Name]
		_, ok2 := data2[info.Name]
		if ok1 || ok2 {
			present = append(present, info)
		}
	}
	e := echo.New()
	var req *http.Request
	uv := url.Values{}
	for k, v := range data {
		uv[k] = v
	}
	var body []byte // body sources: the bytes sent, whatever the way their length is (not) declared
	bodyCT := ""
	switch c.Source {
	case "form":
		body, bodyCT = []byte(uv.Encode()), echo.MIMEApplicationForm
	case "multipart":
		var buf bytes.Buffer
		mw := multipart.NewWriter(&buf)
		for _, info := range present {
			for _, v := range data[info.Name] {
				mw.WriteField(info.Name, v)
			}
		}
		mw.Close()
		body, bodyCT = buf.Bytes(), mw.FormDataContentType()
	case "json":
		body, bodyCT = c08JSONBody(present, data), echo.MIMEApplicationJSON
	case "xml":
		body, bodyCT = c08XMLBody(present, data), echo.MIMEApplicationXML
	}
	switch c.Source {
	case "form", "multipart", "json", "xml":
		req = verifBodyRequest(http.MethodPost, "/", body, c.LenMode)
		req.Header.Set(echo.HeaderContentType, bodyCT)
		if c.LenMode != "" {
			tags = append(tags, "len:"+c.LenMode)
		}
	case "header":
		req = httptest.NewRequest(http.MethodGet, "/", nil)
		for k, v := range data {
			req.Header[http.CanonicalHeaderKey(k)] = v
		}
	case "param":
		req = httptest.NewRequest(http.MethodGet, "/", nil)
	case "param+query":
		req = httptest.NewRequest(http.MethodGet, "/?"+url.Values(data2).Encode(), nil)
	default: // query, bind-get
		req = httptest.NewRequest(http.MethodGet, "/?"+uv.Encode(), nil)
	}
	if c.Serial == "raw" {
		e.JSONSerializer = verifRawJSON{}
		tags = append(tags, "serializer:raw")
	}
	ctx := e.NewContext(req, httptest.NewRecorder())
	if c.Source == "param" || twoPass {
		var names, values []string
		for _, info := range present {
			if v, ok := data[info.Name]; ok {
				names = append(names, info.Name)
				values = append(values, v[0])
			}
		}
		ctx.SetParamNames(names...)
		ctx.SetParamValues(values...)
	}
	dst := reflect.New(catT)
	if c.Prepop {
		c08Prepopulate(dst.Elem())
		tags = append(tags, "prepopulated")
	}
	// snapshot of the whole destination before binding
	type snap struct {
		wire  string
		vals  []string
		state string
	}
	before := make([]snap, len(infos))
	for i, info := range infos {
		w, v, st := c08FVal(info, dst.Elem().Field(info.Idx))
		before[i] = snap{w, v, st}
	}
	var err error
	panicked := ""
	served := false
	if body != nil && c.LenMode == "server" && c.Serial == "" {
		// the same bytes over a real connection, uploaded without a declared length
		served = verifServe(http.MethodPost, "/", body, http.Header{echo.HeaderContentType: {bodyCT}}, func(sc echo.Context) {
			defer func() {
				if p := recover(); p != nil {
					panicked = fmt.Sprint(p)
				}
			}()
			if cl := sc.Request().ContentLength; cl != -1 && len(body) > 0 {
				tags = append(tags, fmt.Sprintf("server-content-length:%d", cl))
			}
			err = sc.Bind(dst.Interface())
		})
		if !served {
			tags = append(tags, "server-unavailable")
		}
	}
	func() {
		if served {
			return
		}
		defer func() {
			if p := recover(); p != nil {
				panicked = fmt.Sprint(p)
			}
		}()
		bd := &echo.DefaultBinder{}
		switch c.Source {
		case "query":
			err = bd.BindQueryParams(ctx, dst.Interface())
		case "header":
			err = bd.BindHeaders(ctx, dst.Interface())
		case "param":
			err = bd.BindPathParams(ctx, dst.Interface())
		default: // bind-get, form, multipart, param+query
			err = ctx.Bind(dst.Interface())
		}
	}()
	tags = append(tags, "struct:"+c.Source)
	if c.Source == "json" || c.Source == "xml" {
		// decoded bodies are not modelled: the verdict is what the standard library makes of the
		// SAME bytes on an identically prepared destination
		if panicked != "" {
			return Result{Obs: "panic", Oracle: "struct binding panicked: " + panicked, Tags: tags, Nontrivial: true}
		}
		ref := reflect.New(catT)
		if c.Prepop {
			c08Prepopulate(ref.Elem())
		}
		refErr := c08DecodeReference(c.Source, body, ref)
		if (err != nil) != (refErr != nil) {
			fail("%s body %q: decoding the same bytes gives error=%v, Bind returned %v", c.Source, body, refErr, err)
		}
		if err != nil {
			// 400 — except that BindBody hands an *echo.HTTPError coming out of the JSONSerializer
			// through unchanged (documented: the serializer may answer with its own HTTP error).
			// encoding/json returns the error of a destination's UnmarshalJSON / UnmarshalText as
			// it is, so a destination rejecting text with an *HTTPError surfaces with that code
			// here (observation O10 of DELIVERY-r7; XML and every non-decoded source wrap into 400).
			wantCode := http.StatusBadRequest
			if rhe, ok := refErr.(*echo.HTTPError); ok && c.Source == "json" {
				wantCode = rhe.Code
				tags = append(tags, "json-httperror-passthrough")
			}
			var he *echo.HTTPError
			if !errors.As(err, &he) || he.Code != wantCode {
				fail("binding error is not a %d HTTPError: %v", wantCode, err)
			}
			tags = append(tags, "struct-400")
		} else {
			tags = append(tags, "struct-ok")
		}
		nontrivial := false
		for _, info := range infos {
			_, v1, s1 := c08FVal(info, dst.Elem().Field(info.Idx))
			_, v2, s2 := c08FVal(info, ref.Elem().Field(info.Idx))
			if s1 != s2 || !c08Same(v1, false, v2, false) {
				fail("field %s: decoding the same %s bytes (%q) gives %v (%s), after Bind the field holds %v (%s)", info.Name, c.Source, body, v2, s2, v1, s1)
			}
		}
		for _, info := range present {
			for _, v := range data[info.Name] {
				if c08Interesting(v) {
					nontrivial = true
				}
			}
		}
		return Result{Ops: "", Obs: "", Oracle: oracle, Tags: append(tags, "oracle-only"), Nontrivial: nontrivial}
	}
	tbl := &c08Table{}
	tbl.add(32, "0.0")
	tbl.add(64, "0.0")
	kind := "1"
	if twoPass {
		kind = "2"
	}
	ops := []string{kind, wInt(len(present))}
	for _, info := range present {
		v1, ok1 := data[info.Name]
		ops = append(ops, wInt(info.Wrap), wInt(info.Fam), wInt(info.Ty), before[info.Idx].wire, c08OptStrs(v1, ok1))
		if twoPass {
			v2, ok2 := data2[info.Name]
			ops = append(ops, c08OptStrs(v2, ok2))
			for _, v := range v2 {
				tbl.addFor(info.Fam, info.E, c08StructDefault(info.Fam, v))
			}
		}
		for _, v := range v1 {
			tbl.addFor(info.Fam, info.E, c08StructDefault(info.Fam, v))
		}
		tags = append(tags, fmt.Sprintf("field:w%d-f%d-t%d", info.Wrap, info.Fam, info.Ty))
		if t := c08CountTag(len(v1)); t != "" {
			tags = append(tags, t, fmt.Sprintf("%s:w%d", t, info.Wrap))
		}
	}
	line := tbl.wire() + " " + strings.Join(ops, " ")
	if panicked != "" {
		return Result{Ops: line, Obs: "2 0", Oracle: "struct binding panicked: " + panicked, Tags: tags, Nontrivial: true}
	}
	status := "0"
	if err != nil {
		status = "1"
		var he *echo.HTTPError
		if !errors.As(err, &he) || he.Code != http.StatusBadRequest {
			fail("binding error is not a 400 HTTPError: %v", err)
			status = "9"
		}
		tags = append(tags, "struct-400")
	} else {
		tags = append(tags, "struct-ok")
	}
	obs := []string{status, wInt(len(present))}
	nontrivial := false
	anyBad := false
	isPresent := map[string]bool{}
	for _, info := range present {
		isPresent[info.Name] = true
		w, vals, state := c08FVal(info, dst.Elem().Field(info.Idx))
		obs = append(obs, w)
		init := before[info.Idx]
		// what each source's text(s) denote for this field
		var lastDens []string
		var allDens [][]string
		fieldBad := false
		for pass, d := range []map[string][]string{data, data2} {
			want, ok := d[info.Name]
			if !ok {
				continue
			}
			if info.Wrap < 2 {
				want = want[:1]
			}
			var dens []string
			for _, s := range want {
				if c08Interesting(s) {
					nontrivial = true
				}
				if s == "" && c.Prepop {
					nontrivial = true
					tags = append(tags, "empty-over-prepopulated")
				}
				dn, ok := c08Denote(info.Fam, info.E, c08StructDefault(info.Fam, s))
				if !ok {
					fieldBad = true
				}
				dens = append(dens, dn)
			}
			_ = pass
			lastDens = dens
			allDens = append(allDens, dens)
		}
		if fieldBad {
			anyBad = true
			if err == nil {
				fail("field %s: a text in %v / %v does not denote a value of its type but Bind returned no error (holds %v)", info.Name, c08L(data[info.Name]), c08L(data2[info.Name]), c08L(vals))
			}
			continue
		}
		if err == nil {
			if state == "nil" || state == "ptrnil" || !c08Same(vals, false, lastDens, false) {
				fail("field %s (held %v before): the last source carrying its key denotes %v but the field holds %v (%s)", info.Name, c08L(init.vals), c08L(lastDens), c08L(vals), state)
			}
			continue
		}
		// failed Bind: the field is as before, or already bound by one of the sources, or a
		// freshly allocated pointer
		okState := state == init.state && c08Same(vals, false, init.vals, false)
		for _, dens := range allDens {
			if (state == "one" || state == "many") && c08Same(vals, false, dens, false) {
				okState = true
			}
		}
		if info.Wrap == 1 && init.state == "nil" && state == "one" && vals[0] == c08ZeroCanonOf(info) {
			okState = true
		}
		if info.Wrap == 4 && init.state == "nil" && state == "ptrnil" {
			okState = true
		}
		if info.Wrap == 6 && init.state == "nil" && state == "many" && len(vals) == 0 {
			okState = true // the pointer is allocated before UnmarshalParams is called
		}
		if !okState {
			fail("field %s: held %v (%s) before, texts denote %v, holds %v (%s) after a failed Bind", info.Name, c08L(init.vals), init.state, allDens, c08L(vals), state)
		}
	}
	// fields for which no source carries a key are never touched
	for _, info := range infos {
		if isPresent[info.Name] {
			continue
		}
		_, vals, state := c08FVal(info, dst.Elem().Field(info.Idx))
		if state != before[info.Idx].state || !c08Same(vals, false, before[info.Idx].vals, false) {
			fail("field %s changed from %v to %v although no source carries its key", info.Name, c08L(before[info.Idx].vals), c08L(vals))
		}
	}
	if err != nil && !anyBad {
		fail("every value denotes a value that fits its field but Bind failed: %v", err)
	}
	return Result{Ops: line, Obs: strings.Join(obs, " "), Oracle: oracle, Tags: tags, Nontrivial: nontrivial}
}

func c08ZeroCanonOf(info c08FieldInfo) string {
	if info.Fam == famNamed {
		return c08Canon(reflect.Zero(info.E), famNamed, 0)
	}
	return c08ZeroCanon(info.Fam)
}

func c08ZeroCanon(fam int) string {
	switch fam {
	case famInt, famUint, famFloat:
		return "0"
	case famBool:
		return "false"
	}
	return ""
}

func c08Run(ci any) Result {
	c := ci.(*c08Case)
	if c.Kind == "struct" {
		return c08RunStruct(c)
	}
	return c08RunVB(c)
}

// c08Interesting: the text sits within ±1 of a width boundary, or is a look-alike of a number
func c08Interesting(s string) bool {
	if n, ok := c08BigOf(strings.TrimLeft(s, "+"), true); ok {
		a := new(big.Int).Abs(n)
		for _, w := range []uint{7, 8, 15, 16, 31, 32, 63, 64} {
			d := new(big.Int).Sub(a, new(big.Int).Lsh(big.NewInt(1), w))
			if d.CmpAbs(big.NewInt(1)) <= 0 {
				return true
			}
		}
		return len(s) > 0 && (s[0] == '+' || strings.HasPrefix(strings.TrimLeft(s, "+-"), "0") && len(s) > 1)
	}
	if s == "" {
		return false
	}
	// not a plain decimal: a look-alike if it contains a digit
	return strings.ContainsAny(s, "0123456789") || strings.ContainsAny(s, "١٢٣４５")
}

func c08SortedKeys(m map[string]int) []string {
	var ks []string
	for k := range m {
		ks = append(ks, k)
	}
	sort.Strings(ks)
	return ks
}
