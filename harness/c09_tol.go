package main

// C09 — which differences between the implementation's and the model's observation line lie OUTSIDE the property.
//
// The property (properties.jsonl, C09) fixes which fields struct binding may write (explicit tag of the source, key
// equal to the tag under case folding), the order path < query < body with later sources overriding, 415 for a
// non-empty body of unsupported type and 400 for malformed input, "never bound partially in silence".
// It does not say what a binding call that FAILS WITH 400 leaves in the very field it could not convert: bind.go
// allocates a nil pointer field (`*int`, `*string`, a tagged `*struct`, `*multipart.FileHeader`) before converting, so
// after the 400 the field points to a zero value; leaving it nil — as it was before the call — is equally fine.  The
// model mirrors the allocation; that one difference is tolerated.
//
// Observation line: `code dval`; code 0 | 400 | 415 | err | panic; dval of a struct destination `0 n val*` with
// val = `0 fval` (leaf) | `1 n val*` (struct / non-nil pointer to struct) | `2` (nil pointer to struct) | `3` (other).
//
// Decision:
//   code                   strict (success vs error, 400 vs 415, any other class, panic: never tolerated)
//   map / opaque dests     strict
//   every val, code != 400 strict
//   every val, code 400    strict, EXCEPT at exactly one position of the tree, and only if that position held a nil
//                          pointer before the call (recomputed from the case): `nil` on one side and `freshly allocated
//                          zero value` on the other (leaf: 0 / false / ""; struct: all fields zero / nil).  Two or more
//                          differing positions, a non-zero value, a position that was not nil before: not tolerated.
// A line that does not parse is never tolerated.

import (
	"strconv"
	"strings"
)

type c09TolNode struct {
	kind string // leaf | struct | nilstruct | other
	tok  string // leaf: the fval tokens
	kids []*c09TolNode
}

type c09TolReader struct {
	t   []string
	i   int
	bad bool
}

func (r *c09TolReader) next() string {
	if r.i >= len(r.t) {
		r.bad = true
		return ""
	}
	r.i++
	return r.t[r.i-1]
}

func (r *c09TolReader) count() int {
	n, err := strconv.Atoi(r.next())
	if err != nil || n < 0 || n > len(r.t) {
		r.bad = true
		return 0
	}
	return n
}

func (r *c09TolReader) fval() string {
	start := r.i
	switch r.next() {
	case "1", "3":
	case "0":
		r.next()
		r.next()
	case "2":
		for k := r.count(); k > 0 && !r.bad; k-- {
			r.next()
			r.next()
		}
	default:
		r.bad = true
	}
	if r.bad {
		return ""
	}
	return strings.Join(r.t[start:r.i], " ")
}

func (r *c09TolReader) val(depth int) *c09TolNode {
	if depth > 12 {
		r.bad = true
		return nil
	}
	switch r.next() {
	case "0":
		return &c09TolNode{kind: "leaf", tok: r.fval()}
	case "1":
		n := &c09TolNode{kind: "struct"}
		for k := r.count(); k > 0 && !r.bad; k-- {
			n.kids = append(n.kids, r.val(depth+1))
		}
		return n
	case "2":
		return &c09TolNode{kind: "nilstruct"}
	case "3":
		return &c09TolNode{kind: "other"}
	}
	r.bad = true
	return nil
}

// c09TolStruct parses the dval of a struct destination (`0 n val*`); ok=false for maps, opaque values, bad lines
func c09TolStruct(tokens []string) (*c09TolNode, bool) {
	r := &c09TolReader{t: tokens}
	if r.next() != "0" {
		return nil, false
	}
	root := &c09TolNode{kind: "struct"}
	for k := r.count(); k > 0 && !r.bad; k-- {
		root.kids = append(root.kids, r.val(0))
	}
	if r.bad || r.i != len(r.t) {
		return nil, false
	}
	return root, true
}

func c09TolZeroLeaf(tok string) bool {
	return tok == "0 0 0" || tok == "0 1 0" || tok == "0 2 s"
}

// every leaf zero or nil, every pointer to struct nil or all-zero
func c09TolAllZero(n *c09TolNode) bool {
	switch n.kind {
	case "leaf":
		return c09TolZeroLeaf(n.tok) || n.tok == "1" || n.tok == "2 0"
	case "struct":
		for _, k := range n.kids {
			if k == nil || !c09TolAllZero(k) {
				return false
			}
		}
		return true
	case "nilstruct", "other":
		return true
	}
	return false
}

// nilVsFresh: one side is the nil pointer, the other a freshly allocated zero value
func c09TolNilVsFresh(a, b *c09TolNode) bool {
	one := func(x, y *c09TolNode) bool {
		switch {
		case x.kind == "leaf" && x.tok == "1" && y.kind == "leaf":
			return c09TolZeroLeaf(y.tok)
		case x.kind == "nilstruct" && y.kind == "struct":
			return c09TolAllZero(y)
		}
		return false
	}
	return one(a, b) || one(b, a)
}

// c09TolDiff counts the positions at which a and b differ other than by nil-vs-fresh on a position that was nil
// before (init); a difference of any other kind makes ok false
func c09TolDiff(a, b, init *c09TolNode) (tolerated int, ok bool) {
	if a == nil || b == nil || init == nil {
		return 0, false
	}
	wasNil := (init.kind == "leaf" && init.tok == "1") || init.kind == "nilstruct"
	if a.kind == "struct" && b.kind == "struct" && len(a.kids) == len(b.kids) {
		if init.kind == "struct" && len(init.kids) == len(a.kids) {
			for i := range a.kids {
				n, ok := c09TolDiff(a.kids[i], b.kids[i], init.kids[i])
				if !ok {
					return 0, false
				}
				tolerated += n
			}
			return tolerated, true
		}
		// both allocated the pointer that was nil before: below it they must agree literally
		if c09TolEqual(a, b) {
			return 0, true
		}
		return 0, false
	}
	if c09TolEqual(a, b) {
		return 0, true
	}
	if wasNil && c09TolNilVsFresh(a, b) {
		return 1, true
	}
	return 0, false
}

func c09TolEqual(a, b *c09TolNode) bool {
	if a == nil || b == nil || a.kind != b.kind || a.tok != b.tok || len(a.kids) != len(b.kids) {
		return false
	}
	for i := range a.kids {
		if !c09TolEqual(a.kids[i], b.kids[i]) {
			return false
		}
	}
	return true
}

func c09Tolerable(ci any, implObs, modelObs string) (ok bool) {
	defer func() {
		if recover() != nil {
			ok = false
		}
	}()
	c, isCase := ci.(*c09Case)
	if !isCase {
		return false
	}
	it, mt := strings.Fields(implObs), strings.Fields(modelObs)
	if len(it) < 2 || len(mt) < 2 || it[0] != "400" || mt[0] != "400" {
		return false
	}
	a, ok1 := c09TolStruct(it[1:])
	b, ok2 := c09TolStruct(mt[1:])
	if !ok1 || !ok2 {
		return false
	}
	t, err := c09DestType(c)
	if err != nil {
		return false
	}
	init, ok3 := c09TolStruct(strings.Fields(c09DValWire(c, c09NewDest(c, t).Elem())))
	if !ok3 {
		return false
	}
	n, fine := c09TolDiff(a, b, init)
	return fine && n == 1
}
