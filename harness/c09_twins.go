package main

// C09, round 5: process-wide state.  Binding must be a function of (destination type, request):
// nothing learned while binding one type or one source may leak into a later bind.  The cases
// below bind several DISTINCT types that print alike (`reflect.Type.String()` is "main.request"
// for every function-local `type request struct{…}`) one after another in one process, and the
// same type through different sources in sequence ("warm-up" steps of a case), so that a cache
// keyed by printed type name, by field index or without the source shows.

import (
	"fmt"
	"net/http"
	"net/http/httptest"
	"net/url"
	"reflect"
	"strings"

	"github.com/labstack/echo/v4"
)

// ---- family "request": five types, all printed `main.request`

func c09TwinRequest0() reflect.Type {
	type request struct {
		ID   int    `query:"id" param:"id" form:"id"`
		Role string // not bindable
		Name string `query:"name" form:"name" header:"x-name"`
		Note string `header:"x-note"`
	}
	return reflect.TypeOf(request{})
}

// the tags sit one field further down
func c09TwinRequest1() reflect.Type {
	type request struct {
		ID   int    // not bindable
		Role string `query:"id" form:"role" param:"id" header:"x-name"`
		Name string // not bindable
		Note string `query:"name" form:"id"`
	}
	return reflect.TypeOf(request{})
}

// same names, other kinds and widths at every index
func c09TwinRequest2() reflect.Type {
	type request struct {
		ID   int8     `query:"id" form:"id" param:"id"`
		Role int64    `query:"role" form:"role"`
		Name bool     `query:"name"`
		Note []string `query:"note" form:"note" header:"x-note"`
	}
	return reflect.TypeOf(request{})
}

// other order, fewer fields
func c09TwinRequest3() reflect.Type {
	type request struct {
		Name string `query:"name" form:"name"`
		ID   int    `query:"id" param:"id"`
	}
	return reflect.TypeOf(request{})
}

// embedded struct at index 0, untagged pointer to struct, more fields
func c09TwinRequest4() reflect.Type {
	type request struct {
		C09Inner
		Role  string `form:"role" query:"role"`
		P     *C09Inner
		Note  string `query:"id"`
		Extra uint16 `query:"extra" param:"extra" form:"extra" header:"extra"`
	}
	return reflect.TypeOf(request{})
}

// ---- family "dto": three types printed `main.dto`

func c09TwinDto0() reflect.Type {
	type dto struct {
		A string `query:"a"`
		B string `query:"b" form:"b"`
		c string `query:"c"`
	}
	return reflect.TypeOf(dto{})
}

func c09TwinDto1() reflect.Type {
	type dto struct {
		A string `query:"b"`
		B string `query:"a" form:"a"`
		C string
	}
	return reflect.TypeOf(dto{})
}

func c09TwinDto2() reflect.Type {
	type dto struct {
		A string `form:"a"`
		B string
		C string `query:"c" header:"c" param:"c"`
	}
	return reflect.TypeOf(dto{})
}

var c09TwinFamilies = map[string][]reflect.Type{
	"request": {c09TwinRequest0(), c09TwinRequest1(), c09TwinRequest2(), c09TwinRequest3(), c09TwinRequest4()},
	"dto":     {c09TwinDto0(), c09TwinDto1(), c09TwinDto2()},
}

var c09TwinFamilyNames = []string{"request", "dto"}

func init() {
	for name, fam := range c09TwinFamilies {
		for i, t := range fam {
			if t.String() != fam[0].String() {
				panic(fmt.Sprintf("twin family %s: variant %d prints %s, variant 0 prints %s", name, i, t, fam[0]))
			}
			for j := 0; j < i; j++ {
				if fam[j] == t {
					panic(fmt.Sprintf("twin family %s: variants %d and %d are the same type", name, j, i))
				}
			}
		}
	}
}

// "twin:<family>:<variant>"
func c09TwinType(dest string) (reflect.Type, bool) {
	parts := strings.Split(dest, ":")
	if len(parts) != 3 || parts[0] != "twin" {
		return nil, false
	}
	fam, ok := c09TwinFamilies[parts[1]]
	if !ok {
		return nil, false
	}
	var k int
	if _, err := fmt.Sscanf(parts[2], "%d", &k); err != nil || k < 0 || k >= len(fam) {
		return nil, false
	}
	return fam[k], true
}

// the leaves of a Go type as the key generator wants them
func c09TypeLeaves(t reflect.Type) []c09GenLeaf {
	var out []c09GenLeaf
	for i := 0; i < t.NumField(); i++ {
		f := t.Field(i)
		ft := f.Type
		if ft.Kind() == reflect.Ptr && ft.Elem().Kind() == reflect.Struct {
			ft = ft.Elem()
		}
		if ft.Kind() == reflect.Struct && !c09IsUnm(ft) {
			out = append(out, c09TypeLeaves(ft)...)
			continue
		}
		tags := map[string]string{}
		for _, s := range c09Sources {
			if v := f.Tag.Get(s); v != "" {
				tags[s] = v
			}
		}
		kind := "string"
		switch f.Type.Kind() {
		case reflect.Int, reflect.Int64:
			kind = "int"
		case reflect.Int8:
			kind = "int8"
		case reflect.Uint16:
			kind = "uint16"
		case reflect.Bool:
			kind = "bool"
		case reflect.Slice:
			kind = "[]string"
		}
		out = append(out, c09GenLeaf{Tags: tags, Kind: kind, Name: f.Name})
	}
	return out
}

// ---- warm-up steps

// one bind that happens BEFORE the bind under test, in the same process: another type (or the
// same one, Dest "self") through one source.  Its outcome is not looked at, only that it does not panic.
type c09WarmStep struct {
	Dest string `json:"dest"` // self | cat:<name> | twin:<family>:<k>
	Op   string `json:"op"`   // param | query | header | form
}

// every tag name of a type (all sources, all depths) — the warm-up request carries them all, so
// that every field of the warmed type is looked at
func c09AllTagNames(t reflect.Type, into map[string]bool) {
	for _, l := range c09TypeLeaves(t) {
		for _, v := range l.Tags {
			into[v] = true
		}
	}
}

func c09RunWarm(c *c09Case, self reflect.Type) (panicked string) {
	for _, w := range c.Warm {
		var t reflect.Type
		switch {
		case w.Dest == "self":
			t = self
		case strings.HasPrefix(w.Dest, "cat:"):
			t = c09Catalogue[strings.TrimPrefix(w.Dest, "cat:")]
		default:
			t, _ = c09TwinType(w.Dest)
		}
		if t == nil || t.Kind() != reflect.Struct {
			continue
		}
		names := map[string]bool{"warm": true}
		c09AllTagNames(t, names)
		if self != nil && self.Kind() == reflect.Struct {
			c09AllTagNames(self, names)
		}
		vals := url.Values{}
		for n := range names {
			vals.Set(n, "1")
		}
		e := echo.New()
		var req *http.Request
		switch w.Op {
		case "form":
			req = httptest.NewRequest(http.MethodPost, "/", strings.NewReader(vals.Encode()))
			req.Header.Set(echo.HeaderContentType, echo.MIMEApplicationForm)
		case "header":
			req = httptest.NewRequest(http.MethodGet, "/", nil)
			for n := range names {
				req.Header[http.CanonicalHeaderKey(n)] = []string{"1"}
			}
		default:
			req = httptest.NewRequest(http.MethodGet, "/?"+vals.Encode(), nil)
		}
		ctx := e.NewContext(req, httptest.NewRecorder())
		if w.Op == "param" {
			var ns, vs []string
			for n := range names {
				ns, vs = append(ns, n), append(vs, "1")
			}
			ctx.SetParamNames(ns...)
			ctx.SetParamValues(vs...)
		}
		func() {
			defer func() {
				if p := recover(); p != nil {
					panicked = fmt.Sprintf("warm-up bind of %s through %s panicked: %v", w.Dest, w.Op, p)
				}
			}()
			d := reflect.New(t)
			bd := &echo.DefaultBinder{}
			switch w.Op {
			case "param":
				_ = bd.BindPathParams(ctx, d.Interface())
			case "header":
				_ = bd.BindHeaders(ctx, d.Interface())
			case "form":
				_ = bd.BindBody(ctx, d.Interface())
			default:
				_ = bd.BindQueryParams(ctx, d.Interface())
			}
		}()
		if panicked != "" {
			return panicked
		}
	}
	return ""
}
