package main

// C18 — split cases (round 8): Store.Allow is two steps for the scheduler — the locked part (lookup or
// creation, lastSeen, maybe the sweep) and the unlocked tail (clock reading + AllowN on the limiter the
// goroutine left the critical section with).  The skew cases of c18.go park goroutines in the tail but keep
// ExpiresIn long, so that no sweep runs.  Here ExpiresIn is short: sweeps run while goroutines are parked,
// identifiers return after their idle time at the very moment of a sweep, goroutines stall for fractions and
// multiples of ExpiresIn.
//
// Deterministic: exactly one goroutine runs at any moment.  A held call runs in its own goroutine and parks on
// a channel INSIDE the injected clock, in the Nth reading it takes while the store mutex is free
// (middleware.VerifStoreLocked tells); the driver starts the next call only after the goroutine has
// signalled that it is parked and waits for its completion after releasing it.
//
// Model: C18.lockStep / C18.tailStep / C18.runS (heap of limiters: a swept entry leaves an orphan behind);
// the op line is the schedule as it was played.
//
// Oracles (model-free, on the AllowN readings of each identifier, hexp only):
//   window   readings in order at the limiter: count <= burst + rate*(d+1ns) on every window; out of order:
//            the allowance of C18_skew_bucket (F19 class when only the plain bound fails)
//   refusal  (readings in order) a refused call has a used-up window of its own admitted calls behind it
//   window-stall (F24 class) the plain bound fails for an identifier one of whose goroutines was held between
//            Unlock and its clock reading for AllowN (lastSeen older than the limiter's own clock: the record is
//            forgotten that much early; held for longer than ExpiresIn: it works on an orphan)

import (
	"fmt"
	"math/rand"
	"sort"
	"strings"
	"sync"
	"time"

	"github.com/labstack/echo/v4/middleware"
)

type c18SStep struct {
	tail bool
	idx  int
	t    int64 // lock: the reading under the mutex; tail: the AllowN reading
}

type c18SplitCall struct {
	t         int64
	hold      bool
	late      bool
	nth       int
	unl       int // clock readings taken so far while the store mutex was free
	wasParked bool
	relT      int64 // the clock at the moment of the release
	parked    chan struct{}
	release   chan struct{}
	done      chan struct{}
	ok        bool
	left      int
	idx       int
}

// the AllowN reading of the call
func (cc *c18SplitCall) tb() int64 {
	if cc.wasParked && cc.late {
		return cc.relT
	}
	return cc.t
}

// c18DriveSplit plays the calls of a split case against a fresh real store; returns the decisions (indexed
// like c.Evs), the schedule of locked parts and tails as played, and per call whether it parked and the
// instant of its release.
func c18DriveSplit(c *c18Case) (admitted []bool, steps []c18SStep, calls []*c18SplitCall, panicked string) {
	defer func() {
		if r := recover(); r != nil {
			panicked = fmt.Sprint(r)
		}
	}()
	st := c.sp0().build()
	var mu sync.Mutex
	var curCall *c18SplitCall
	nowT := c.T0
	middleware.VerifSetClock(st, func() time.Time {
		mu.Lock()
		cc := curCall
		if cc == nil {
			// a reading outside any started call (a released goroutine on its way out): the clock as it stands
			t := nowT
			mu.Unlock()
			return c18Base.Add(time.Duration(t))
		}
		park := false
		if !middleware.VerifStoreLocked(st) {
			cc.unl++
			if cc.hold && !cc.wasParked && cc.unl == cc.nth {
				park = true
				cc.wasParked = true
			}
		}
		mu.Unlock()
		if park {
			close(cc.parked)
			<-cc.release
			if cc.late {
				return c18Base.Add(time.Duration(cc.relT))
			}
		}
		return c18Base.Add(time.Duration(cc.t))
	})
	admitted = make([]bool, len(c.Evs))
	var pending []*c18SplitCall
	finish := func(cc *c18SplitCall) {
		mu.Lock()
		cc.relT = nowT
		mu.Unlock()
		close(cc.release)
		<-cc.done
		admitted[cc.idx] = cc.ok
		steps = append(steps, c18SStep{tail: true, idx: cc.idx, t: cc.tb()})
	}
	tick := func() { // one more call has completed
		var keep []*c18SplitCall
		for _, p := range pending {
			p.left--
			if p.left <= 0 {
				finish(p)
			} else {
				keep = append(keep, p)
			}
		}
		pending = keep
	}
	for i, ev := range c.Evs {
		nth := ev.Nth
		if nth <= 0 {
			nth = 1
		}
		cc := &c18SplitCall{t: ev.T, hold: ev.Hold > 0, late: ev.Late, nth: nth, parked: make(chan struct{}), release: make(chan struct{}), done: make(chan struct{}), left: ev.Hold, idx: i}
		calls = append(calls, cc)
		mu.Lock()
		curCall = cc
		nowT = ev.T
		mu.Unlock()
		steps = append(steps, c18SStep{idx: i, t: ev.T})
		id := ev.ID
		go func() {
			defer close(cc.done)
			defer func() { recover() }()
			cc.ok, _ = st.Allow(id)
		}()
		completed := false
		select {
		case <-cc.parked:
		case <-cc.done:
			completed = true
		case <-time.After(10 * time.Second):
			return nil, nil, nil, "deadlock: a Store.Allow call neither parked nor returned while other calls were parked after Unlock"
		}
		mu.Lock()
		curCall = nil
		mu.Unlock()
		if completed {
			admitted[i] = cc.ok
			steps = append(steps, c18SStep{tail: true, idx: i, t: cc.tb()})
			tick()
		} else {
			pending = append(pending, cc)
		}
	}
	for _, p := range pending {
		finish(p)
	}
	return admitted, steps, calls, ""
}

func (c *c18Case) splitValid() bool {
	if !c.Exact || c.S2 != nil || c.Skew || c.Many > 0 || c.StressIDs > 0 || c.NilStore || c.Simple && (c.Burst != 0 || c.ExpiresIn != 0) {
		return false
	}
	if c.RateNum <= 0 || c.effBurst() < 1 || c.effBurst() > 1000 || len(c.Evs) > 2000 {
		return false
	}
	prev := c.T0
	for _, ev := range c.Evs {
		if ev.Kind != c18DirectAt || ev.T < prev || ev.Hold < 0 || ev.R != 0 || ev.Nth < 0 || ev.Nth > 4 {
			return false
		}
		prev = ev.T
	}
	return true
}

// c18SplitVerdict evaluates the model-free oracles of a split case on what the real store decided
func c18SplitVerdict(c *c18Case, adm []bool, steps []c18SStep, calls []*c18SplitCall) (oracle string, tags []string, nontrivial bool) {
	sp := c.sp0()
	exp := sp.effExpires()
	tagset := map[string]bool{"split-case": true, "exact-stream": true}
	// tail order per identifier
	byID := map[string][]c18SStep{}
	var ids []string
	parkedNow := 0
	lastLock := c.T0
	lastByID := map[string]int64{}
	for _, s := range steps {
		ev := c.Evs[s.idx]
		if s.tail {
			if calls[s.idx].wasParked {
				parkedNow--
			}
			if _, ok := byID[ev.ID]; !ok {
				ids = append(ids, ev.ID)
			}
			byID[ev.ID] = append(byID[ev.ID], s)
			continue
		}
		if s.t-lastLock > exp {
			tagset["gap-over-expiresin"] = true
			if parkedNow > 0 {
				tagset["sweep-while-a-goroutine-is-parked-after-unlock"] = true
				nontrivial = true
			}
		}
		if l, ok := lastByID[ev.ID]; ok && s.t-l > exp {
			tagset["return-after-expiry"] = true
			if parkedNow > 0 {
				tagset["return-after-expiry-while-a-goroutine-is-parked"] = true
				nontrivial = true
			}
		}
		lastLock = s.t
		lastByID[ev.ID] = s.t
		// does this call park?  (its tail is not the next step)
		if calls[s.idx].wasParked {
			parkedNow++
			tagset["goroutine-parked-after-unlock"] = true
			if ev.Late {
				tagset["held-before-the-clock-reading"] = true
			}
		} else if ev.Hold > 0 {
			tagset["held-call-never-parked"] = true
		}
	}
	if len(ids) > 1 {
		tagset["multi-id"] = true
	}
	if !sp.hexp() {
		tagset["no-hexp"] = true
	}
	var beyond, refusal, stall, skewed, noslack string
	if sp.hexp() {
		for _, id := range ids {
			var ts []int64
			var ad []bool
			var admT []int64
			mono := true
			stalled := false
			for _, s := range byID[id] {
				if len(ts) > 0 && s.t < ts[len(ts)-1] {
					mono = false
				}
				ts = append(ts, s.t)
				ad = append(ad, adm[s.idx])
				if adm[s.idx] {
					admT = append(admT, s.t)
				}
				cc := calls[s.idx]
				if cc.wasParked && cc.late && cc.relT > cc.t {
					// lastSeen (stamped under the mutex) is older than the limiter's own clock (the AllowN reading)
					stalled = true
					if cc.relT-cc.t > exp {
						tagset["stall-over-expiresin"] = true
					}
				}
			}
			if !mono {
				tagset["out-of-order-readings"] = true
			}
			if stalled {
				tagset["delayed-before-the-clock-reading"] = true
			}
			sort.Slice(admT, func(a, b int) bool { return admT[a] < admT[b] })
			strict := c18Window(sp, admT, 1)
			allowance := ""
			if !mono {
				allowance = c18SkewAllowance(c, ts, ad)
			}
			switch {
			case strict == "":
				if w := c18Window(sp, admT, 0); w != "" && noslack == "" {
					noslack = fmt.Sprintf("window-noslack: identifier %q: %s", id, w)
				}
			case !mono && allowance == "":
				// out-of-order readings at the limiter, within the allowance of C18_skew_bucket: F19 class
				if skewed == "" {
					skewed = fmt.Sprintf("window-skew: identifier %q: %s", id, strict)
				}
			case stalled:
				if stall == "" {
					stall = fmt.Sprintf("window-stall: identifier %q: %s", id, strict)
				}
			case mono:
				if beyond == "" {
					beyond = fmt.Sprintf("window: identifier %q: %s", id, strict)
				}
			default:
				if beyond == "" {
					beyond = fmt.Sprintf("window: identifier %q: %s", id, allowance)
				}
			}
			if mono && !stalled && refusal == "" {
				var soFar []int64
				for j := range ts {
					if ad[j] {
						soFar = append(soFar, ts[j])
					} else if c18RefusalUnjustified(sp, soFar, ts[j]) {
						refusal = fmt.Sprintf("refusal: identifier %q refused at %d ns (call %d) although no window of its own admitted requests is used up", id, ts[j], byID[id][j].idx)
						break
					}
				}
			}
		}
	}
	switch {
	case beyond != "":
		oracle = beyond
	case refusal != "":
		oracle = refusal
	case stall != "":
		oracle = stall
		tagset["F24-class"] = true
	case skewed != "":
		oracle = skewed
		tagset["F19-class"] = true
	case noslack != "":
		oracle = noslack
		tagset["F11-class"] = true
	}
	for t := range tagset {
		tags = append(tags, t)
	}
	sort.Strings(tags)
	return oracle, tags, nontrivial
}

func c18RunSplit(c *c18Case) Result {
	if !c.splitValid() {
		return Result{Tags: []string{"invalid-case"}}
	}
	adm, steps, calls, p := c18DriveSplit(c)
	if p != "" {
		return Result{Oracle: "panic: " + p, Tags: []string{"panic"}}
	}
	ops := []string{"S", wInt64(c.RateNum), wInt64(c.RateDen), wInt(c.Burst), wInt64(c.ExpiresIn), wInt64(c.T0), wInt(len(steps))}
	var out []string
	for _, s := range steps {
		if s.tail {
			ops = append(ops, "1", wInt(s.idx), wInt64(s.t))
			out = append(out, wBool(adm[s.idx]))
		} else {
			ops = append(ops, "0", wInt(s.idx), wStr(c.Evs[s.idx].ID), wInt64(s.t))
		}
	}
	out = append([]string{wInt(len(out))}, out...)
	oracle, tags, nontrivial := c18SplitVerdict(c, adm, steps, calls)
	return Result{Ops: strings.Join(ops, " "), Obs: strings.Join(out, " "), Oracle: oracle, Tags: tags, Nontrivial: nontrivial}
}

// the known findings a split case can show (the caller has checked that the model reproduces the decisions)
func c18KnownSplit(c *c18Case, res Result) string {
	again := c18RunSplit(c)
	has := func(tag string) bool {
		for _, t := range again.Tags {
			if t == tag {
				return true
			}
		}
		return false
	}
	switch {
	case strings.HasPrefix(res.Oracle, "window-stall: ") && strings.HasPrefix(again.Oracle, "window-stall: ") && has("delayed-before-the-clock-reading"):
		return "F24"
	case strings.HasPrefix(res.Oracle, "window-skew: ") && strings.HasPrefix(again.Oracle, "window-skew: ") && has("out-of-order-readings"):
		return "F19"
	case strings.HasPrefix(res.Oracle, "window-noslack: ") && strings.HasPrefix(again.Oracle, "window-noslack: "):
		return "F11"
	}
	return ""
}

// ---------- generator ----------

// exact parameters with a SHORT ExpiresIn (tight = burst/rate rounded up to the tick, or a little more)
func c18SplitParams(r *rand.Rand) *c18Case {
	c := &c18Case{Exact: true, Split: true}
	j := uint(r.Intn(4))
	c.RateDen = int64(1) << j
	c.RateNum = int64(1 + r.Intn(40))
	c.Burst = 1 + r.Intn(6)
	c.T0 = int64(r.Intn(1000)) * c18Tick
	tight := ceilDiv(int64(c.Burst)*c.RateDen*c18Second, c.RateNum*c18Tick) // in ticks
	switch r.Intn(6) {
	case 0, 1:
		c.ExpiresIn = tight * c18Tick
	case 2:
		c.ExpiresIn = (tight + 1 + int64(r.Intn(3))) * c18Tick
	case 3:
		c.ExpiresIn = 2 * tight * c18Tick
	case 4:
		c.ExpiresIn = (tight + int64(r.Intn(2000))) * c18Tick
	default:
		if tight > 1 && r.Intn(2) == 0 {
			c.ExpiresIn = (tight - 1) * c18Tick // violates ExpiresIn*rate >= burst: tie only
		} else {
			c.ExpiresIn = tight * c18Tick
		}
	}
	return c
}

// c18GenSplitReturn: identifiers spend (part of) their burst, stay away for about ExpiresIn, and return at
// the very moment at which a call — their own, another returning identifier's, a newcomer's — triggers the
// sweep and is parked after Unlock; they go on sending while it is parked and after it has finished.
func c18GenSplitReturn(r *rand.Rand, big bool) *c18Case {
	c := c18SplitParams(r)
	exp := c.ExpiresIn
	burst := c.Burst
	refill := c.RateDen * c18Second / c.RateNum / c18Tick * c18Tick
	ids := []string{"a", "b", "c", "d"}[:1+r.Intn(3)]
	t := c.T0 + int64(r.Intn(4))*c18Tick
	add := func(id string, hold int, late bool) {
		c.Evs = append(c.Evs, c18Ev{T: t, Kind: c18DirectAt, ID: id, Hold: hold, Late: late})
	}
	rounds := 1 + r.Intn(2)
	if big {
		rounds = 1 + r.Intn(4)
	}
	for round := 0; round < rounds; round++ {
		// phase 1: the identifiers use their allowance
		for _, id := range ids {
			n := burst + r.Intn(2)
			if r.Intn(4) == 0 {
				n = 1 + r.Intn(burst)
			}
			for k := 0; k < n; k++ {
				add(id, 0, false)
			}
			if r.Intn(3) == 0 {
				t += int64(r.Intn(3)) * c18Tick
			}
		}
		// idle
		switch r.Intn(7) {
		case 0:
			t += exp - c18Tick
		case 1:
			t += exp
		case 2, 3:
			t += exp + c18Tick
		case 4:
			t += exp + int64(1+r.Intn(8))*c18Tick
		case 5:
			t += 2*exp + c18Tick
		default:
			t += exp/2/c18Tick*c18Tick + c18Tick
		}
		// phase 2: the trigger is parked while the others return
		trigger := "z"
		switch r.Intn(4) {
		case 0:
			trigger = ids[r.Intn(len(ids))]
		case 1:
			trigger = "y" + wInt(round)
		}
		back := append([]string(nil), ids...)
		r.Shuffle(len(back), func(i, j int) { back[i], back[j] = back[j], back[i] })
		back = back[:1+r.Intn(len(back))]
		during := 0
		per := make([]int, len(back))
		for i := range back {
			per[i] = burst + r.Intn(2)
			if r.Intn(5) == 0 {
				per[i] = 1 + r.Intn(burst)
			}
			during += per[i]
		}
		hold := during
		if r.Intn(4) == 0 {
			hold = 1 + r.Intn(during)
		}
		add(trigger, hold, r.Intn(5) == 0)
		for i, id := range back {
			for k := 0; k < per[i]; k++ {
				h := 0
				if r.Intn(12) == 0 {
					h = 1 + r.Intn(3)
				}
				add(id, h, false)
			}
		}
		// phase 3: they go on, at the same instant and a little later
		for _, id := range back {
			for k := 0; k < burst+1; k++ {
				add(id, 0, false)
			}
		}
		switch r.Intn(4) {
		case 0:
			t += c18Tick
		case 1:
			t += refill
		case 2:
			t += refill / 2 / c18Tick * c18Tick
		}
		for _, id := range back {
			for k := 0; k < 1+r.Intn(2); k++ {
				add(id, 0, false)
			}
		}
		t += int64(r.Intn(3)) * c18Tick
	}
	return c
}

// c18GenSplitRandom: a random history over a few identifiers with holds of 1-6 calls, clock steps of 0, a tick,
// the refill time, and fractions / multiples of ExpiresIn (so goroutines stay parked across sweeps, sometimes
// for longer than ExpiresIn), a quarter of the held calls held BEFORE their clock reading.
func c18GenSplitRandom(r *rand.Rand, big bool) *c18Case {
	c := c18SplitParams(r)
	exp := c.ExpiresIn
	refill := c.RateDen * c18Second / c.RateNum / c18Tick * c18Tick
	ids := []string{"a", "b", "c", "d"}[:1+r.Intn(4)]
	n := 6 + r.Intn(34)
	if big {
		n = 20 + r.Intn(100)
	}
	t := c.T0
	pattern := r.Intn(3)
	for i := 0; i < n; i++ {
		switch r.Intn(12) {
		case 0, 1, 2, 3:
		case 4:
			t += c18Tick
		case 5:
			t += refill
		case 6:
			t += refill / 2 / c18Tick * c18Tick
		case 7:
			t += exp/2/c18Tick*c18Tick + c18Tick
		case 8:
			t += exp
		case 9:
			t += exp + c18Tick
		case 10:
			t += 2*exp + int64(r.Intn(3))*c18Tick
		default:
			t += int64(r.Intn(6)) * c18Tick
		}
		ev := c18Ev{T: t, Kind: c18DirectAt, ID: ids[r.Intn(len(ids))]}
		held := false
		switch pattern {
		case 0:
			held = i%2 == 0
		case 1:
			held = r.Intn(2) == 0
		default:
			held = r.Intn(6) == 0
		}
		if held {
			ev.Hold = 1 + r.Intn(6)
			ev.Late = r.Intn(4) == 0
			if r.Intn(20) == 0 {
				ev.Nth = 2
			}
		}
		c.Evs = append(c.Evs, ev)
	}
	return c
}

// c18GenSplitStall: goroutines of an identifier pass the locked part and are then held BEFORE their clock
// reading for about ExpiresIn (a little less, exactly, a little more, twice); meanwhile another identifier's
// call runs (and sweeps, when the time has come) and the identifier itself returns with burst+1 calls
func c18GenSplitStall(r *rand.Rand, big bool) *c18Case {
	c := c18SplitParams(r)
	exp := c.ExpiresIn
	burst := c.Burst
	t := c.T0 + int64(r.Intn(4))*c18Tick
	add := func(id string, hold int, late bool) {
		c.Evs = append(c.Evs, c18Ev{T: t, Kind: c18DirectAt, ID: id, Hold: hold, Late: late})
	}
	rounds := 1
	if big {
		rounds = 1 + r.Intn(3)
	}
	for round := 0; round < rounds; round++ {
		spend := r.Intn(burst + 1)
		for k := 0; k < spend; k++ {
			add("a", 0, false)
		}
		if r.Intn(3) == 0 {
			// delayed for LESS than ExpiresIn: the sleepers read the clock late (their limiter counts from then), nobody
			// of "a" enters the store again, and when ExpiresIn has passed since their LOCKED part a sweep runs and
			// "a" returns
			t1 := t
			sleepers := 1 + r.Intn(burst)
			for k := 0; k < sleepers; k++ {
				add("a", sleepers-k, true)
			}
			t += []int64{exp / 2 / c18Tick * c18Tick, exp - c18Tick, exp / 4 / c18Tick * c18Tick, c18Tick}[r.Intn(4)]
			add("b", 0, false) // releases the sleepers one after the other
			t = t1 + exp + int64(r.Intn(3))*c18Tick
			add("b", 0, false)
			for k := 0; k < burst+1; k++ {
				add("a", 0, false)
			}
			t += exp + int64(1+r.Intn(4))*c18Tick
			continue
		}
		sleepers := 1 + r.Intn(burst+1)
		others := 1 + r.Intn(2)
		back := burst + 1
		for k := 0; k < sleepers; k++ {
			// released one after the other once the others and the returning calls are through
			add("a", (sleepers-1-k)+others+back-r.Intn(2), r.Intn(6) != 0)
		}
		switch r.Intn(6) {
		case 0:
			t += exp - c18Tick
		case 1:
			t += exp
		case 2, 3:
			t += exp + c18Tick
		case 4:
			t += exp + int64(1+r.Intn(8))*c18Tick
		default:
			t += 2 * exp
		}
		for k := 0; k < others; k++ {
			add("b", 0, false)
		}
		for k := 0; k < back; k++ {
			add("a", 0, false)
		}
		add("a", 0, false)
		t += int64(r.Intn(3)) * c18Tick
		add("a", 0, false)
		t += exp + int64(1+r.Intn(4))*c18Tick
	}
	return c
}

func c18GenSplit(r *rand.Rand, big bool) *c18Case {
	switch r.Intn(6) {
	case 0:
		return c18GenSplitStall(r, big)
	case 1, 2, 3:
		return c18GenSplitReturn(r, big)
	}
	return c18GenSplitRandom(r, big)
}

// ---------- shrink / mutate ----------

func c18ShrinkSplit(c *c18Case) []any {
	var out []any
	with := func(evs []c18Ev) {
		d := *c
		d.Evs = evs
		out = append(out, &d)
	}
	for i, ev := range c.Evs {
		if ev.Hold > 0 {
			for _, h := range []int{0, ev.Hold - 1, ev.Hold / 2} {
				if h != ev.Hold && h >= 0 {
					evs := append([]c18Ev(nil), c.Evs...)
					evs[i].Hold = h
					if h == 0 {
						evs[i].Late, evs[i].Nth = false, 0
					}
					with(evs)
				}
			}
		}
		if ev.Late {
			evs := append([]c18Ev(nil), c.Evs...)
			evs[i].Late = false
			with(evs)
		}
		if ev.Nth != 0 {
			evs := append([]c18Ev(nil), c.Evs...)
			evs[i].Nth = 0
			with(evs)
		}
	}
	// drop an event and give the parked calls before it one call less to wait for
	if len(c.Evs) <= 200 {
		for i := range c.Evs {
			evs := append(append([]c18Ev(nil), c.Evs[:i]...), c.Evs[i+1:]...)
			changed := false
			for j := 0; j < i; j++ {
				if evs[j].Hold > 1 && j+evs[j].Hold >= i {
					evs[j].Hold--
					changed = true
				}
			}
			if changed {
				with(evs)
			}
		}
	}
	return out
}

// c18Mutate: neighbours of a split case for the failing-input search: every identifier asks again burst+1
// times at the end (a limiter that was replaced or forgotten unnoticed shows as a second burst)
func c18Mutate(r *rand.Rand, ci any) []any {
	c := ci.(*c18Case)
	if !c.Split || len(c.Evs) == 0 {
		return nil
	}
	var out []any
	last := c.Evs[len(c.Evs)-1].T
	seen := map[string]bool{}
	var ids []string
	for _, ev := range c.Evs {
		if !seen[ev.ID] {
			seen[ev.ID] = true
			ids = append(ids, ev.ID)
		}
	}
	for _, dt := range []int64{0, c18Tick} {
		d := *c
		d.Evs = append([]c18Ev(nil), c.Evs...)
		for _, id := range ids {
			for k := int64(0); k < c.effBurst()+1; k++ {
				d.Evs = append(d.Evs, c18Ev{T: last + dt, Kind: c18DirectAt, ID: id})
			}
		}
		out = append(out, &d)
	}
	for _, id := range ids {
		d := *c
		d.Evs = append([]c18Ev(nil), c.Evs...)
		for k := int64(0); k < c.effBurst()+1; k++ {
			d.Evs = append(d.Evs, c18Ev{T: last, Kind: c18DirectAt, ID: id})
		}
		out = append(out, &d)
	}
	return out
}
