package main

// C19 — Tolerable: differences between implementation and model that the property does not speak about.
//
// What C19 constrains (and what therefore must agree, or is checked on the implementation's side by the
// model-free oracle): which targets the attempts of a request go to and how many attempts there are, whether
// the request ends relayed / failed / in a panic, the RetryFilter consultations, the request target the
// upstream receives when exactly one rule matches (or none), the answers of AddTarget / RemoveTarget.
//
// What it leaves open:
//   * WHICH refusal answers a request for which no target could be attempted (empty balancer: every pick of
//     the request is nil).  "502 only when every attempt failed" is an only-if about attempts; here there is
//     none.  Tolerated: another 5xx class than the model's 502 on such a request — same picks, same filter
//     calls, both sides "failed".
//   * which of SEVERAL matching rewrite rules is applied (Go's map order in the code as it is, the list order
//     in the model).  Tolerated: both sides relayed, same picks, and both request targets are the result of
//     applying a rule of the rule set that matches the request (computed here with the regexp
//     rewriteRulesRegex documents and a sequential substitution, independent of echo's code) — possible only
//     when at least two rules match with different results.
//   * wording and identity of the proxy's error values, headers on the proxy's own error responses, flush
//     timing, buffer reuse: not part of the observation at all.
//
// Never tolerated: another number of answers, another kind of outcome, another pick (target or count),
// other RetryFilter calls, a panic, a different AddTarget / RemoveTarget answer, a skipped request that was not
// skipped, a refusal class outside 5xx, an upstream request target that no matching rule produces, any
// difference on a request for which a target WAS attempted (502 after failed attempts, 499, the error class
// a RetryFilter / ErrorHandler is shown for a failed attempt).

import (
	"encoding/hex"
	"strconv"
	"strings"
)

type c19TolRec struct {
	raw    string
	kind   string // bool | skipped | served
	picks  []string
	allNil bool   // at least one pick and every pick nil: no target could be attempted
	out    string // 1 relayed | 2 failed | 4 panic
	errTok string // failed: h<code> | o
	uri    string
	fcalls string
}

// c19TolParse splits an observation line into one record per step of the case
func c19TolParse(c *c19Case, line string) ([]c19TolRec, bool) {
	t := strings.Fields(line)
	pos := 0
	next := func() (string, bool) {
		if pos >= len(t) {
			return "", false
		}
		pos++
		return t[pos-1], true
	}
	skipper := c.Skipper && c.Ctor != 1
	var recs []c19TolRec
	for _, st := range c.Steps {
		start := pos
		switch {
		case st.K == 0 || st.K == 1:
			if _, ok := next(); !ok {
				return nil, false
			}
			recs = append(recs, c19TolRec{kind: "bool", raw: strings.Join(t[start:pos], " ")})
		case st.Req != nil:
			tok, ok := next()
			if !ok {
				return nil, false
			}
			if tok == "5" && skipper && st.Req.Skip {
				recs = append(recs, c19TolRec{kind: "skipped", raw: "5"})
				continue
			}
			n, err := strconv.Atoi(tok)
			if err != nil || n < 0 || n > 64 {
				return nil, false
			}
			r := c19TolRec{kind: "served", allNil: n > 0}
			for k := 0; k < n; k++ {
				p, ok := next()
				if !ok {
					return nil, false
				}
				switch p {
				case "0":
				case "9":
					r.allNil = false
				case "1":
					a, ok1 := next()
					b, ok2 := next()
					if !ok1 || !ok2 {
						return nil, false
					}
					p = p + " " + a + " " + b
					r.allNil = false
				default:
					return nil, false
				}
				r.picks = append(r.picks, p)
			}
			if r.out, ok = next(); !ok {
				return nil, false
			}
			switch r.out {
			case "1", "4":
			case "2":
				if r.errTok, ok = next(); !ok {
					return nil, false
				}
			default:
				return nil, false
			}
			u, ok := next()
			if !ok || !strings.HasPrefix(u, "s") {
				return nil, false
			}
			b, err := hex.DecodeString(u[1:])
			if err != nil {
				return nil, false
			}
			r.uri = string(b)
			f, ok := next()
			if !ok {
				return nil, false
			}
			if f == "1" {
				m, ok := next()
				k, err := strconv.Atoi(m)
				if !ok || err != nil || k < 0 || k > 64 {
					return nil, false
				}
				for ; k > 0; k-- {
					if _, ok := next(); !ok {
						return nil, false
					}
				}
			} else if f != "0" {
				return nil, false
			}
			r.raw = strings.Join(t[start:pos], " ")
			// the filter part as text: everything after the uri token
			r.fcalls = r.raw[strings.LastIndex(r.raw, u)+len(u):]
			recs = append(recs, r)
		}
	}
	return recs, pos == len(t)
}

// 5xx class of an error token (h500 … h599)
func c19Tol5xx(tok string) bool {
	if !strings.HasPrefix(tok, "h") {
		return false
	}
	n, err := strconv.Atoi(tok[1:])
	return err == nil && n >= 500 && n <= 599
}

// what rewriteURL matches the rules against (documented behaviour: the origin-form target; for an
// absolute-form target what follows the authority)
func c19TolMatchInput(rq *c19Req) string {
	return rq.URI
}

// the request targets the rules of the case can turn this request into: one per matching rule
func c19TolRuleResults(c *c19Case, rq *c19Req) map[string]bool {
	out := map[string]bool{}
	in := c19TolMatchInput(rq)
	for _, ru := range c.Rules {
		m := c19GlobRegexp(ru.Pat).FindStringSubmatch(in)
		if m == nil {
			continue
		}
		out[c19Subst(ru.Tmpl, m[1:]...)] = true
	}
	return out
}

func c19Tolerable(ci any, implObs, modelObs string) bool {
	c, ok := ci.(*c19Case)
	if !ok || (c.Kind != 1 && c.Kind != 5) {
		return false // balancer op sequences (kinds 0, 6): every answer is the property's business
	}
	impl, ok1 := c19TolParse(c, implObs)
	model, ok2 := c19TolParse(c, modelObs)
	if !ok1 || !ok2 || len(impl) != len(model) {
		return false
	}
	k := 0
	for _, st := range c.Steps {
		if st.K != 0 && st.K != 1 && st.Req == nil {
			continue
		}
		a, m := impl[k], model[k]
		k++
		if a.raw == m.raw {
			continue
		}
		if a.kind != "served" || m.kind != "served" || st.Req == nil {
			return false
		}
		if strings.Join(a.picks, " ") != strings.Join(m.picks, " ") || a.fcalls != m.fcalls || a.out != m.out {
			return false
		}
		switch a.out {
		case "2":
			// the refusal of a request for which no target could be attempted
			if !(a.allNil && m.allNil && c19Tol5xx(a.errTok) && c19Tol5xx(m.errTok) && a.uri == m.uri) {
				return false
			}
		case "1":
			// which of several matching rules was applied
			if c.Ctor == 1 {
				return false
			}
			res := c19TolRuleResults(c, st.Req)
			if len(res) < 2 || !res[a.uri] || !res[m.uri] {
				return false
			}
		default:
			return false
		}
	}
	return true
}
