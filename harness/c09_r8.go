package main

// C09, round 8.
//
//  (a) Keys that become equal to a tag only after a normalisation OTHER than case folding: another
//      separator (`X_Is_Admin` for `X-Is-Admin`, `x-id` for `x_id`, `trace_id` for `trace.id`), no
//      separator (`isadmin`), an inserted one (`user_id` for `userid`), the CGI spelling
//      (`HTTP_X_IS_ADMIN`).  Every source; header names additionally as spelled (not canonicalised),
//      and header data present while Bind / BindBody run (they never look at it).
//  (b) Decoded bodies (JSON, XML) with a defect in the MIDDLE of the document — a stray or mismatched
//      end tag, a bare `&`, an HTML entity, an unclosed `<br>`, an unquoted attribute, a trailing comma,
//      a single-quoted string … — under every spelling of the media types that select the decoder
//      (`application/xml`, `text/xml`, parameters, padding).  The verdict comes from the strict decoder
//      of the standard library on the same bytes.

import (
	"fmt"
	"math/rand"
	"reflect"
	"strings"
)

// ---------- (a) separators ----------

const c09Seps = "-_. "

func c09StripSeps(s string) string {
	return strings.Map(func(r rune) rune {
		if strings.ContainsRune(c09Seps, r) {
			return -1
		}
		return r
	}, s)
}

// spellings that a lenient matcher would take for the tag but that are not equal to it under case folding
func c09SeparatorVariants(t string) []string {
	var out []string
	if strings.ContainsAny(t, c09Seps) {
		for _, from := range c09Seps {
			if !strings.ContainsRune(t, from) {
				continue
			}
			for _, to := range c09Seps {
				if to != from {
					out = append(out, strings.ReplaceAll(t, string(from), string(to)))
				}
			}
		}
		out = append(out, c09StripSeps(t))
		cgi := strings.ToUpper(strings.NewReplacer("-", "_", ".", "_", " ", "_").Replace(t))
		out = append(out, cgi, "HTTP_"+cgi, strings.Title(strings.ReplaceAll(strings.ToLower(t), "-", "_")))
	} else if len(t) >= 2 {
		m := len(t) / 2
		for _, sep := range c09Seps {
			out = append(out, t[:m]+string(sep)+t[m:])
		}
		out = append(out, t[:1]+"_"+t[1:], "HTTP_"+strings.ToUpper(t), "x-"+t, "X_"+t)
	}
	var uniq []string
	seen := map[string]bool{}
	for _, k := range out {
		if k != "" && !seen[k] && !strings.EqualFold(k, t) {
			seen[k] = true
			uniq = append(uniq, k)
		}
	}
	return uniq
}

// some key of d equals the tag once separators are ignored (and is not equal to it under folding)
func c09SeparatorMissKey(d map[string][]string, tag string) bool {
	nt := c09StripSeps(tag)
	if nt == "" {
		return false
	}
	for k := range d {
		if !strings.EqualFold(k, tag) && strings.EqualFold(c09StripSeps(strings.TrimPrefix(strings.ToUpper(k), "HTTP_")), nt) {
			return true
		}
	}
	return false
}

// deterministic block: every tagged leaf of every catalogue type x every source carrying its tag x
// every separator variant of the tag (one key per request, exact key absent; for tags that exist in
// both spellings — x-id / x_id — both keys with different values); headers in canonical and in raw
// spelling.  And: header data aimed at header tags while Bind / BindBody run.
func c09SeparatorBlock(r *rand.Rand) []any {
	var out []any
	mk := func(dest, src string, kv []c09KV, raw bool) *c09Case {
		c := &c09Case{Dest: dest, InitSeed: r.Int63()}
		switch src {
		case "param":
			c.Op, c.Params = "param", kv
			if r.Intn(3) == 0 {
				c.Op, c.Method, c.BodyKind = "bind", "GET", "none"
			}
		case "query":
			c.Op, c.Query = "query", kv
			if r.Intn(2) == 0 {
				c.Op, c.Method, c.BodyKind = "bind", []string{"GET", "DELETE", "HEAD"}[r.Intn(3)], "none"
			}
		case "header":
			c.Op, c.Header, c.RawHdr = "header", kv, raw
		default:
			c.Op, c.Method, c.Form = []string{"bind", "body"}[r.Intn(2)], []string{"POST", "PUT", "PATCH"}[r.Intn(3)], kv
			c.BodyKind, c.CType = "form", "application/x-www-form-urlencoded"
			if r.Intn(3) == 0 {
				c.BodyKind, c.CType = "multipart", c09MultipartCT
			}
		}
		return c
	}
	for _, name := range c09CatNames {
		for _, lf := range c09CatLeaves(name) {
			for _, src := range c09Sources {
				t := lf.Tags[src]
				if t == "" {
					continue
				}
				vars := c09SeparatorVariants(t)
				if name != "separators" && len(vars) > 3 { // the dedicated type gets every variant, the others a sample
					r.Shuffle(len(vars), func(i, j int) { vars[i], vars[j] = vars[j], vars[i] })
					vars = vars[:3]
				}
				for _, key := range vars {
					kv := []c09KV{{K: key, V: []string{c09ValueFor(r, lf.Kind, 20)}}}
					out = append(out, mk("cat:"+name, src, kv, false))
					if src == "header" {
						out = append(out, mk("cat:"+name, src, kv, true))
					}
				}
				if src == "header" { // the tag itself, spelled as a client / a middleware may spell it, not canonicalised
					for _, key := range []string{t, strings.ToLower(t), strings.ToUpper(t)} {
						out = append(out, mk("cat:"+name, src, []c09KV{{K: key, V: []string{c09ValueFor(r, lf.Kind, 0)}}}, true))
					}
				}
			}
		}
	}
	// both spellings at once: each field receives the value under ITS tag
	for _, src := range c09Sources {
		for _, raw := range []bool{false, true} {
			if raw && src != "header" {
				continue
			}
			for _, pair := range [][2]string{{"x-id", "x_id"}, {"x_id", "x-id"}, {"X-ID", "x_id"}, {"x-id", "X_ID"}} {
				kv := []c09KV{{K: pair[0], V: []string{"dash7"}}, {K: pair[1], V: []string{"under8"}}}
				out = append(out, mk("cat:separators", src, kv, raw))
			}
			out = append(out, mk("cat:separators", src, []c09KV{{K: "X_Is_Admin", V: []string{"1"}}, {K: "is_admin", V: []string{"true"}}, {K: "x-legacy-id", V: []string{"v"}}, {K: "legacy-id", V: []string{"w"}}}, raw))
			out = append(out, mk("cat:mass", src, []c09KV{{K: "X_Balance", V: []string{"100"}}, {K: "x.balance", V: []string{"5"}}, {K: "xbalance", V: []string{"6"}}}, raw))
		}
	}
	// Bind / BindBody with header data aimed at header tags: headers are bound by BindHeaders only
	for _, name := range c09CatNames {
		for _, lf := range c09CatLeaves(name) {
			t := lf.Tags["header"]
			if t == "" {
				continue
			}
			for _, variant := range []string{"get", "post-form", "body", "post-json"} {
				c := &c09Case{Dest: "cat:" + name, InitSeed: r.Int63(), Op: "bind", Method: "GET", BodyKind: "none",
					Header: []c09KV{{K: t, V: []string{c09ValueFor(r, lf.Kind, 0)}}}}
				switch variant {
				case "post-form":
					c.Method, c.BodyKind, c.CType = "POST", "form", "application/x-www-form-urlencoded"
					c.Form = []c09KV{{K: "unrelated", V: []string{"1"}}}
				case "body":
					c.Op, c.Method, c.BodyKind, c.CType = "body", "PUT", "form", "application/x-www-form-urlencoded"
					c.Form = []c09KV{{K: "unrelated", V: []string{"1"}}}
				case "post-json":
					c.Method, c.BodyKind, c.CType, c.Body = "POST", "raw", "application/json", "{}"
				}
				out = append(out, c)
			}
		}
	}
	return out
}

// ---------- (b) documents with a defect in the middle ----------

func c09XMLScalar(r *rand.Rand, k reflect.Kind) string {
	switch {
	case k == reflect.Bool:
		return []string{"true", "false"}[r.Intn(2)]
	case k >= reflect.Int && k <= reflect.Int64:
		return fmt.Sprint(r.Intn(100))
	case k >= reflect.Uint && k <= reflect.Uint64:
		return fmt.Sprint(r.Intn(100))
	}
	return fmt.Sprintf("x%d", r.Intn(10))
}

func c09XMLFields(r *rand.Rand, t reflect.Type, sb *strings.Builder, depth int, all bool) {
	for i := 0; i < t.NumField(); i++ {
		f := t.Field(i)
		if !f.IsExported() || (!all && r.Intn(4) == 0) {
			continue
		}
		ft := f.Type
		if ft.Kind() == reflect.Ptr {
			ft = ft.Elem()
		}
		switch {
		case ft == c08UnmT || ft == c08TextT:
			fmt.Fprintf(sb, "<%s><V>u%d</V></%s>", f.Name, r.Intn(10), f.Name)
		case ft.Kind() == reflect.Struct && c09FileKind(ft) < 0 && ft != c08MultiT && depth < 3:
			if f.Anonymous && f.Type.Kind() == reflect.Struct { // encoding/xml promotes the fields of an embedded struct
				c09XMLFields(r, ft, sb, depth+1, all)
			} else {
				fmt.Fprintf(sb, "<%s>", f.Name)
				c09XMLFields(r, ft, sb, depth+1, all)
				fmt.Fprintf(sb, "</%s>", f.Name)
			}
		case ft.Kind() == reflect.Slice && c09ScalarKind(ft.Elem()):
			for j := 0; j < 2; j++ {
				fmt.Fprintf(sb, "<%s>%s</%s>", f.Name, c09XMLScalar(r, ft.Elem().Kind()), f.Name)
			}
		case c09ScalarKind(ft):
			v := c09XMLScalar(r, ft.Kind())
			if !all && ft.Kind() != reflect.String && r.Intn(12) == 0 {
				v = "abc" // a value the field cannot take: malformed input as well
			}
			fmt.Fprintf(sb, "<%s>%s</%s>", f.Name, v, f.Name)
		}
	}
}

// a well-formed document for destination type t: one element per exported field
func c09XMLOfType(r *rand.Rand, t reflect.Type, all bool) string {
	var sb strings.Builder
	sb.WriteString("<r>")
	if t.Kind() == reflect.Struct {
		c09XMLFields(r, t, &sb, 0, all)
	} else {
		sb.WriteString("<k>v</k><id>5</id>")
	}
	sb.WriteString("</r>")
	return sb.String()
}

type c09Damage struct {
	Name string
	Doc  string
}

// positions right after an end tag inside the root element (a defect there sits between a field that
// is already bound and fields that follow)
func c09XMLBoundaries(doc string) []int {
	var out []int
	for i := 0; i+1 < len(doc); i++ {
		if doc[i] == '<' && doc[i+1] == '/' {
			if j := strings.IndexByte(doc[i:], '>'); j > 0 && i+j+1 < len(doc) {
				out = append(out, i+j+1)
			}
		}
	}
	if len(out) == 0 {
		out = []int{len("<r>")}
	}
	return out
}

// every defect, each applied at position pos (an element boundary) of a well-formed document
func c09DamageXMLAt(doc string, pos int) []c09Damage {
	if pos > len(doc) {
		pos = len(doc)
	}
	ins := func(s string) string { return doc[:pos] + s + doc[pos:] }
	out := []c09Damage{
		{"stray-end-tag", ins("</name>")},
		{"stray-end-tag-root-like", ins("</R>")},
		{"bare-ampersand", ins("<Note>a & b</Note>")},
		{"ampersand-name-no-semicolon", ins("<Note>a &b c</Note>")},
		{"html-entity-nbsp", ins("<Note>a&nbsp;b</Note>")},
		{"html-entity-eacute", ins("<Note>caf&eacute;</Note>")},
		{"unknown-entity", ins("<Note>&bogus;</Note>")},
		{"bad-char-reference", ins("<Note>&#xZZ;</Note>")},
		{"unclosed-br", ins("<br>")},
		{"unclosed-hr-img", ins("<hr><img src=\"x\">")},
		{"unclosed-p", ins("<p>text")},
		{"unquoted-attribute", ins("<Note lang=en>x</Note>")},
		{"attribute-without-value", ins("<Note checked>x</Note>")},
		{"attribute-single-open-quote", ins("<Note lang=\"en>x</Note>")},
		{"overlapping-elements", ins("<a><b></a></b>")},
		{"end-tag-other-case", ins("<Note>x</NOTE>")},
		{"end-tag-with-attribute", ins("<Note>x</Note a=\"1\">")},
		{"control-character", ins("<Note>a\x01b</Note>")},
		{"invalid-utf8", ins("<Note>a\xffb</Note>")},
		{"double-dash-in-comment", ins("<!-- a -- b -->")},
		{"unterminated-comment", ins("<!-- a")},
		{"unterminated-cdata", ins("<![CDATA[ a")},
		{"lt-in-text", ins("<Note>a < b</Note>")},
		{"lt-in-attribute", ins("<Note a=\"<\">x</Note>")},
		{"processing-instruction-unterminated", ins("<?pi a")},
		{"second-xml-declaration-encoding", "<?xml version=\"1.0\" encoding=\"latin1\"?>" + doc},
		{"empty-element-name", ins("<>x</>")},
		{"name-starts-with-digit", ins("<1a>x</1a>")},
		{"cut-here", doc[:pos]},
		// no root element at all: the decoder reports the end of input
		{"blank-document", " \n"},
		{"comment-only", "<!-- nothing -->"},
		{"declaration-only", "<?xml version=\"1.0\"?>\n"},
		{"text-only", "hello"},
	}
	// the end tag just before pos renamed / removed; one byte of it dropped
	if i := strings.LastIndex(doc[:pos], "</"); i >= 0 && pos > i+3 {
		out = append(out,
			c09Damage{"mismatched-end-tag", doc[:i] + "</zz>" + doc[pos:]},
			c09Damage{"missing-end-tag", doc[:i] + doc[pos:]},
			c09Damage{"end-tag-without-gt", doc[:pos-1] + doc[pos:]},
			c09Damage{"end-tag-without-lt", doc[:i] + doc[i+1:]},
			c09Damage{"end-tag-without-slash", doc[:i+1] + doc[i+2:]})
	}
	return out
}

func c09DamageXML(r *rand.Rand, doc string) c09Damage {
	b := c09XMLBoundaries(doc)
	all := c09DamageXMLAt(doc, b[r.Intn(len(b))])
	if r.Intn(6) == 0 && len(doc) > 1 { // or: one byte dropped / doubled anywhere
		k := r.Intn(len(doc))
		if r.Intn(2) == 0 {
			return c09Damage{"byte-dropped", doc[:k] + doc[k+1:]}
		}
		return c09Damage{"byte-doubled", doc[:k+1] + doc[k:]}
	}
	return all[r.Intn(len(all))]
}

// JSON: positions right after a comma between members of the top-level object
func c09JSONBoundaries(doc string) []int {
	var out []int
	depth, inStr := 0, false
	for i := 0; i < len(doc); i++ {
		ch := doc[i]
		switch {
		case inStr:
			if ch == '\\' {
				i++
			} else if ch == '"' {
				inStr = false
			}
		case ch == '"':
			inStr = true
		case ch == '{' || ch == '[':
			depth++
		case ch == '}' || ch == ']':
			depth--
		case ch == ',' && depth == 1:
			out = append(out, i+1)
		}
	}
	if len(out) == 0 {
		if i := strings.IndexByte(doc, '{'); i >= 0 {
			out = []int{i + 1}
		} else {
			out = []int{0}
		}
	}
	return out
}

func c09DamageJSONAt(doc string, pos int) []c09Damage {
	if pos > len(doc) {
		pos = len(doc)
	}
	ins := func(s string) string { return doc[:pos] + s + doc[pos:] }
	mem := func(m string) string { // a member inserted at pos (which sits right after `{` or `,`)
		if pos < len(doc) && doc[pos] == '}' {
			return ins(m)
		}
		return ins(m + ",")
	}
	out := []c09Damage{
		{"doubled-comma", ins(",")},
		{"single-quoted-member", mem("'note':'x'")},
		{"unquoted-key", mem("note:\"x\"")},
		{"comment-block", ins("/* c */")},
		{"comment-line", ins("// c\n")},
		{"nan-literal", mem("\"note\":NaN")},
		{"leading-zero-number", mem("\"zz\":01")},
		{"plus-number", mem("\"zz\":+1")},
		{"bare-fraction", mem("\"zz\":.5")},
		{"hex-number", mem("\"zz\":0x10")},
		{"capitalised-literal", mem("\"zz\":True")},
		{"control-character-in-string", mem("\"zz\":\"a\x01b\"")},
		{"raw-newline-in-string", mem("\"zz\":\"a\nb\"")},
		{"bad-escape", mem("\"zz\":\"a\\xb\"")},
		{"short-unicode-escape", mem("\"zz\":\"\\u12\"")},
		{"missing-colon", mem("\"zz\" 1")},
		{"equals-for-colon", mem("\"zz\"=1")},
		{"mismatched-bracket", mem("\"zz\":[1}")},
		{"unterminated-string", mem("\"zz\":\"abc")},
		{"stray-closing-brace", ins("}")},
		{"byte-order-mark", "\xef\xbb\xbf" + doc},
		{"cut-here", doc[:pos]},
		{"blank-document", " \n"},
		{"semicolon-separator", strings.Replace(doc, ",", ";", 1)},
	}
	if strings.HasSuffix(doc, "}") && len(doc) > 2 {
		out = append(out, c09Damage{"trailing-comma", doc[:len(doc)-1] + ",}"}, c09Damage{"missing-closing-brace-then-junk", doc[:len(doc)-1] + " x"})
	}
	return out
}

func c09DamageJSON(r *rand.Rand, doc string) c09Damage {
	b := c09JSONBoundaries(doc)
	all := c09DamageJSONAt(doc, b[r.Intn(len(b))])
	if r.Intn(6) == 0 && len(doc) > 1 {
		k := r.Intn(len(doc))
		if r.Intn(2) == 0 {
			return c09Damage{"byte-dropped", doc[:k] + doc[k+1:]}
		}
		return c09Damage{"byte-doubled", doc[:k+1] + doc[k:]}
	}
	return all[r.Intn(len(all))]
}

// spellings of the media types that select a decoder in BindBody (base before `;`, blanks trimmed)
var c09XMLTypes = []string{"application/xml", "text/xml", "text/xml; charset=utf-8", "application/xml; charset=UTF-8", " text/xml", "text/xml\t;x=y", "text/xml;", "application/xml ;q=1"}
var c09JSONTypes = []string{"application/json", "application/json; charset=utf-8", " application/json", "application/json;", "application/json\t;x=y"}

// a JSON document for a catalogue destination with every top-level scalar member present
func c09JSONOfLeaves(r *rand.Rand, leaves []c09GenLeaf) string {
	var parts []string
	seen := map[string]bool{}
	for _, lf := range leaves {
		key := lf.Tags["json"]
		if key == "" {
			key = lf.Name
		}
		if seen[key] || strings.Contains(lf.Kind, "file") || lf.Kind == "multi" || lf.Kind == "unm" {
			continue
		}
		seen[key] = true
		switch lf.Kind {
		case "int", "int8", "uint16", "*int":
			parts = append(parts, fmt.Sprintf("%q:%d", key, r.Intn(100)))
		case "bool":
			parts = append(parts, fmt.Sprintf("%q:true", key))
		case "string", "*string":
			parts = append(parts, fmt.Sprintf("%q:%q", key, fmt.Sprintf("j%d", r.Intn(10))))
		}
	}
	return "{" + strings.Join(parts, ",") + "}"
}

// deterministic block: destinations x every defect x spellings of the media type x Bind / BindBody x
// ways of declaring the length x (JSON) serializers: never accepted, whichever decoder is selected
func c09MalformedDocBlock(r *rand.Rand) []any {
	var out []any
	lens := []string{"", "", "unknown", "chunked", "server"}
	k := 0
	for _, dest := range []string{"cat:mass", "cat:embedded", "cat:separators", "cat:unmarshalers"} {
		t := c09Catalogue[strings.TrimPrefix(dest, "cat:")]
		// XML
		doc := c09XMLOfType(r, t, true)
		bs := c09XMLBoundaries(doc)
		cases := c09DamageXMLAt(doc, bs[0])
		if len(bs) > 2 {
			cases = append(cases, c09DamageXMLAt(doc, bs[len(bs)/2])...)
		}
		cases = append(cases, c09Damage{"well-formed", doc})
		for _, dm := range cases {
			for j := 0; j < 2; j++ { // every defect under a text/xml and under an application/xml spelling
				k++
				ct := []string{"text/xml", "text/xml; charset=utf-8", " text/xml", "text/xml\t;x=y", "text/xml;"}[k%5]
				if j == 1 {
					ct = []string{"application/xml", "application/xml; charset=UTF-8", "application/xml ;q=1"}[k%3]
				}
				c := &c09Case{Dest: dest, InitSeed: r.Int63(), Op: []string{"bind", "body"}[k%2], Method: []string{"POST", "PUT", "PATCH", "DELETE"}[k%4],
					BodyKind: "raw", CType: ct, Body: dm.Doc, LenMode: lens[k%len(lens)]}
				if k%5 == 0 {
					c.Params = []c09KV{{K: "id", V: []string{"1"}}}
				}
				out = append(out, c)
			}
		}
		// JSON
		jdoc := c09JSONOfLeaves(r, c09CatLeaves(strings.TrimPrefix(dest, "cat:")))
		jb := c09JSONBoundaries(jdoc)
		jcases := append(c09DamageJSONAt(jdoc, jb[len(jb)/2]), c09Damage{"well-formed", jdoc})
		for _, dm := range jcases {
			k++
			c := &c09Case{Dest: dest, InitSeed: r.Int63(), Op: []string{"bind", "body"}[k%2], Method: []string{"POST", "PUT", "PATCH"}[k%3],
				BodyKind: "raw", CType: c09JSONTypes[k%len(c09JSONTypes)], Body: dm.Doc, LenMode: lens[k%len(lens)],
				Serial: []string{"", "", "raw", "strict"}[k%4], Binder: []string{"", "", "", "delegate"}[(k/4)%4]}
			out = append(out, c)
		}
	}
	return out
}

// deterministic block: the SIZE of the key set.  The keys aimed at tags (exact and in another letter
// case — the second goes through the linear fold search) come after 257 / 1025 / 4097 unrelated keys
// of the same source; struct and map destinations; every source.  (mime/multipart refuses forms of
// more than 1000 parts: multipart bodies stay below.)
func c09ManyKeysBlock(r *rand.Rand) []any {
	var out []any
	k := 0
	for _, dest := range []string{"cat:mass", "cat:separators", "cat:embedded", "map:str", "map:strs"} {
		var leaves []c09GenLeaf
		if strings.HasPrefix(dest, "cat:") {
			leaves = c09CatLeaves(strings.TrimPrefix(dest, "cat:"))
		}
		for _, src := range []string{"param", "query", "header", "form", "multipart", "bind-get"} {
			tagSrc := map[string]string{"multipart": "form", "bind-get": "query"}[src]
			if tagSrc == "" {
				tagSrc = src
			}
			for _, n := range []int{257, 1025, 4097} {
				if n == 4097 && (k%3 != 0 || leaves == nil) {
					continue
				}
				if src == "multipart" && n > 900 {
					n = 900
				}
				for _, fold := range []bool{false, true} {
					k++
					var kv []c09KV
					for _, lf := range leaves {
						if t := lf.Tags[tagSrc]; t != "" && !strings.Contains(lf.Kind, "file") {
							key := t
							if fold {
								key = strings.ToUpper(t)
							}
							kv = append(kv, c09KV{K: key, V: []string{c09ValueFor(r, lf.Kind, 0)}})
						}
					}
					if leaves == nil {
						kv = []c09KV{{K: "id", V: []string{"m1"}}, {K: "zz-last", V: []string{"m2"}}}
					}
					c := &c09Case{Dest: dest, InitSeed: r.Int63(), Junk: n}
					switch src {
					case "param":
						c.Op, c.Params = "param", kv
					case "query":
						c.Op, c.Query = "query", kv
					case "header":
						c.Op, c.Header, c.RawHdr = "header", kv, k%4 == 0
					case "form":
						c.Op, c.Method, c.Form, c.BodyKind, c.CType = []string{"bind", "body"}[k%2], "POST", kv, "form", "application/x-www-form-urlencoded"
					case "multipart":
						c.Op, c.Method, c.Form, c.BodyKind, c.CType = "bind", "PUT", kv, "multipart", c09MultipartCT
					default:
						c.Op, c.Method, c.Query, c.BodyKind = "bind", "GET", kv, "none"
					}
					out = append(out, c)
				}
			}
		}
	}
	return out
}
