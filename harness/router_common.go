package main

// Shared machinery of the router-based properties (C01, C02, C03, C05, C20): table and
// request generators, a runner that drives the real router through e.ServeHTTP, and
// model-free helpers (pattern instantiation, conservative matcher).

import (
	"bufio"
	"fmt"
	"math/rand"
	"net/http"
	"net/http/httptest"
	"net/url"
	"sort"
	"strconv"
	"strings"

	"github.com/labstack/echo/v4"
)

type rRoute struct {
	Method string `json:"method"`
	Path   string `json:"path"`
	// Direct: registered through the public Router.Add (e.Router().Add) instead of Echo.Add
	Direct bool `json:"direct,omitempty"`
}

type rReq struct {
	Method string `json:"method"`
	Path   string `json:"path"` // the path as the router sees it: becomes URL.RawPath when Raw is set, else URL.Path
	Host   string `json:"host,omitempty"`
	Raw    bool   `json:"raw,omitempty"` // send Path as URL.RawPath (URL.Path = its percent-decoded form)
	// Override: the request arrives as POST carrying X-HTTP-Method-Override: <Method>; the application installs
	// middleware.MethodOverride() with e.Pre, so the method the router must use is Method
	Override bool `json:"override,omitempty"`
	// Parsed: the request is what net/http's server would hand over for the request line `Method Path HTTP/1.1`
	// (http.ReadRequest: URL.Path percent-decoded, URL.RawPath kept when it cannot be recovered from Path), provided
	// that line is well-formed and the router is then shown exactly Path; otherwise the URL fields are set by hand
	Parsed bool `json:"parsed,omitempty"`
	// Keep (for the target of an internal forward): the handler calls Router.Find on its context as it is — the
	// idiom `c.Echo().Router().Find(m, p, c); return c.Handler()(c)` — instead of first putting handler, path and
	// names back to what Reset gives
	Keep bool `json:"keep,omitempty"`
}

// rObs is what the real code did with one request.
type rObs struct {
	Kind   byte // 'D' dispatched to a registered handler, 'N' 404, 'M' 405 / OPTIONS responder, 'P' panic
	Hid    int
	PPath  string
	Names  []string
	Values []string
	Path   string // c.Path() as seen after routing
	Allow  []string
	Status int
	Panic  string
	// not part of the compared observation:
	shared    []string // a slice the application owns and hands to SetParamValues (kept across requests of one Echo)
	fwd       *rReq    // when set: the handler forwards internally (Router.Find on its own context) to this request
	FwdPath   string   // what the context shows after the forward
	FwdNames  []string
	FwdValues []string
	FwdDone   bool
	FwdObs    *rObs // what the handler found by the forward saw when the forwarding handler ran it (c.Handler()(c))
}

// keep: the fields that live as long as the Echo instance
func (o rObs) keep() rObs { return rObs{shared: o.shared} }

func rSharedPristine(i int) string { return "app" + strconv.Itoa(i) }

func (o rObs) wire() string {
	switch o.Kind {
	case 'D':
		return wJoin("D", wInt(o.Hid), wStr(o.PPath), wStrs(o.Names), wStrs(o.Values))
	case 'N':
		return wJoin("N", wStr(o.Path))
	case 'M':
		return wJoin("M", wStr(o.Path), wStrs(o.Allow))
	}
	return "P"
}

func rTableWire(rs []rRoute) string {
	parts := []string{wInt(len(rs))}
	for _, r := range rs {
		parts = append(parts, wStr(r.Method), wStr(r.Path))
	}
	return strings.Join(parts, " ")
}

func splitAllow(h string) []string {
	var out []string
	for _, p := range strings.Split(h, ",") {
		p = strings.TrimSpace(p)
		if p != "" {
			out = append(out, p)
		}
	}
	sort.Strings(out)
	return out
}

// rEcho builds an Echo with the table registered in the given order; *cur receives the observation.
// rAddRoutes registers routes[from:] on e; handler i records itself in cur.
func rAddRoutes(reg rRegistrar, e *echo.Echo, routes []rRoute, from int, cur *rObs) {
	for i := from; i < len(routes); i++ {
		i := i
		h := func(c echo.Context) error {
			if cur.shared == nil {
				cur.shared = make([]string, 24)
				for k := range cur.shared {
					cur.shared[k] = rSharedPristine(k)
				}
			}
			for k, v := range cur.shared {
				if v != rSharedPristine(k) {
					// the framework wrote into memory the application owns
					cur.Kind, cur.Panic = 'P', fmt.Sprintf("application-owned slice clobbered at %d: %q", k, v)
					cur.shared[k] = rSharedPristine(k)
					return c.NoContent(http.StatusOK)
				}
			}
			cur.Kind = 'D'
			cur.Hid = i
			cur.PPath = c.Path()
			cur.Names = append([]string{}, c.ParamNames()...)
			cur.Values = append([]string{}, c.ParamValues()...)
			if cur.fwd != nil {
				// internal forward: the handler routes ANOTHER path on its own context and runs what was found.
				// Router.Find leaves the context alone when nothing at all matches ("handler will be whatever context
				// is reset to"), so the careful application first puts handler, path and names back to what Reset
				// gives (fwd.Keep: it does not; then nothing is claimed about a forward that matches nothing at all);
				// the VALUES stay as the first lookup left them (there is no public way to blank them short of Reset)
				fwd := cur.fwd
				cur.fwd = nil
				if !fwd.Keep {
					c.SetHandler(echo.NotFoundHandler)
					c.SetPath("")
					c.SetParamNames()
				}
				c.Echo().Router().Find(fwd.Method, fwd.Path, c)
				cur.FwdDone = true
				cur.FwdPath = c.Path()
				cur.FwdNames = append([]string{}, c.ParamNames()...)
				func() {
					defer func() { recover() }()
					cur.FwdValues = append([]string{}, c.ParamValues()...)
				}()
				// run the handler the forward found (`return c.Handler()(c)` in applications); a registered handler
				// records itself into cur, so the observation of this (outer) handler is set aside meanwhile
				outer := *cur
				*cur = rObs{shared: outer.shared}
				func() {
					defer func() {
						if r := recover(); r != nil {
							cur.Kind, cur.Panic = 'P', fmt.Sprint(r)
						}
					}()
					err := c.Handler()(c)
					if cur.Kind == 'D' {
						return
					}
					switch {
					case err == echo.ErrNotFound:
						cur.Kind = 'N'
					case err == echo.ErrMethodNotAllowed || err == nil && fwd.Method == http.MethodOptions:
						cur.Kind = 'M'
						cur.Allow = splitAllow(c.Response().Header().Get(echo.HeaderAllow))
					default:
						cur.Kind = '?'
					}
				}()
				inner := *cur
				inner.shared = nil
				outer.shared = cur.shared
				*cur = outer
				cur.FwdObs = &inner
			}
			c.SetParamValues(cur.shared...) // the application passes a slice of its own (longer than any route needs)
			rScribble(c)
			return c.NoContent(http.StatusOK)
		}
		if routes[i].Direct {
			e.Router().Add(routes[i].Method, routes[i].Path, h)
		} else {
			rAddVia(reg, i+len(routes[i].Path), routes[i].Method, routes[i].Path, h)
		}
	}
}

// rScribble: what an application may do to its context at the end of a handler — rename the parameters (as a
// middleware that normalises names does), overwrite the values, change the path.  None of it may reach the router's
// own data or a later request.
func rScribble(c echo.Context) {
	n := len(c.ParamNames())
	names, vals := make([]string, n), make([]string, n)
	for i := range names {
		names[i], vals[i] = "renamed"+strconv.Itoa(i), "scribbled"+strconv.Itoa(i)
	}
	c.SetParamNames(names...)
	c.SetParamValues(vals...)
	c.SetPath("/scribbled")
}

// rHostForC03: a fifth of the C03 tables (chosen by their content) are registered on the router of a host with an
// unusual name, through the host group's own helpers (Group.Add / verbs / Match / RouteNotFound); the requests then
// carry that Host.  The expected answers are those of the table itself.
func rHostForC03(routes []rRoute) string {
	n := 0
	for _, r := range routes {
		if r.Direct {
			return "" // Router.Add works on the default router
		}
		n += len(r.Path) + len(r.Method)
	}
	if len(routes) == 0 || n%5 != 2 {
		return ""
	}
	return "Shop.Example.com:8443"
}

// rRegistrar is the registration surface shared by *echo.Echo and *echo.Group.
type rRegistrar interface {
	Add(method, path string, handler echo.HandlerFunc, middleware ...echo.MiddlewareFunc) *echo.Route
	CONNECT(path string, h echo.HandlerFunc, m ...echo.MiddlewareFunc) *echo.Route
	DELETE(path string, h echo.HandlerFunc, m ...echo.MiddlewareFunc) *echo.Route
	GET(path string, h echo.HandlerFunc, m ...echo.MiddlewareFunc) *echo.Route
	HEAD(path string, h echo.HandlerFunc, m ...echo.MiddlewareFunc) *echo.Route
	OPTIONS(path string, h echo.HandlerFunc, m ...echo.MiddlewareFunc) *echo.Route
	PATCH(path string, h echo.HandlerFunc, m ...echo.MiddlewareFunc) *echo.Route
	POST(path string, h echo.HandlerFunc, m ...echo.MiddlewareFunc) *echo.Route
	PUT(path string, h echo.HandlerFunc, m ...echo.MiddlewareFunc) *echo.Route
	TRACE(path string, h echo.HandlerFunc, m ...echo.MiddlewareFunc) *echo.Route
	RouteNotFound(path string, h echo.HandlerFunc, m ...echo.MiddlewareFunc) *echo.Route
	Match(methods []string, path string, handler echo.HandlerFunc, middleware ...echo.MiddlewareFunc) []*echo.Route
}

// rAddVerb registers through the helper named after the method; false when there is none.
func rAddVerb(reg rRegistrar, method, path string, h echo.HandlerFunc, m ...echo.MiddlewareFunc) bool {
	switch method {
	case "CONNECT":
		reg.CONNECT(path, h, m...)
	case "DELETE":
		reg.DELETE(path, h, m...)
	case "GET":
		reg.GET(path, h, m...)
	case "HEAD":
		reg.HEAD(path, h, m...)
	case "OPTIONS":
		reg.OPTIONS(path, h, m...)
	case "PATCH":
		reg.PATCH(path, h, m...)
	case "POST":
		reg.POST(path, h, m...)
	case "PUT":
		reg.PUT(path, h, m...)
	case "TRACE":
		reg.TRACE(path, h, m...)
	case routeNotFound:
		reg.RouteNotFound(path, h, m...)
	default:
		return false
	}
	return true
}

// rAddVia registers one route through one of the equivalent public entry points (Add, the verb helper,
// Match), chosen by `pick` (a function of the case, so replays are deterministic).
func rAddVia(reg rRegistrar, pick int, method, path string, h echo.HandlerFunc, m ...echo.MiddlewareFunc) {
	switch pick % 4 {
	case 1:
		if rAddVerb(reg, method, path, h, m...) {
			return
		}
	case 2:
		if method != routeNotFound || pick%8 == 2 {
			reg.Match([]string{method}, path, h, m...)
			return
		}
	}
	reg.Add(method, path, h, m...)
}

func rEcho(routes []rRoute, cur *rObs) *echo.Echo {
	return rEchoWarm(routes, 0, nil, cur)
}

// rEchoWarm registers routes[:warm], serves the warm-up requests, then registers the rest: what was
// answered before a registration must not influence what is answered after it.
func rEchoWarm(routes []rRoute, warm int, warmReqs []rReq, cur *rObs) *echo.Echo {
	return rEchoWarmHost("", routes, warm, warmReqs, cur)
}

// rEchoWarmHost: like rEchoWarm, with the table registered on the router of `host` when that is not empty
func rEchoWarmHost(host string, routes []rRoute, warm int, warmReqs []rReq, cur *rObs) *echo.Echo {
	e := echo.New()
	e.Logger.SetOutput(nopWriter{})
	if warm <= 0 || warm > len(routes) {
		warm = len(routes)
		warmReqs = nil
	}
	defer func() {
		// a table may live on a host router: rHostFor says which (the requests then carry that Host)
		var reg rRegistrar = e
		if host != "" {
			reg = e.Host(host)
		}
		rAddRoutes(reg, e, routes[:warm], 0, cur)
		for _, q := range warmReqs {
			rServe(e, cur, q)
		}
		rAddRoutes(reg, e, routes, warm, cur)
		*cur = cur.keep()
	}()
	e.Use(func(next echo.HandlerFunc) echo.HandlerFunc {
		return func(c echo.Context) error {
			err := next(c)
			cur.Path = c.Path()
			return err
		}
	})
	return e
}

type nopWriter struct{}

func (nopWriter) Write(b []byte) (int, error) { return len(b), nil }

// rParsedRequest: the request as net/http reads it off the wire; nil when the request line would not be well-formed
// or when net/url's view of the target is not literally q.Path (then the caller builds the URL by hand)
func rParsedRequest(q rReq) *http.Request {
	if q.Path == "" || q.Path[0] != '/' || q.Method == "" {
		return nil
	}
	for i := 0; i < len(q.Path); i++ {
		if c := q.Path[i]; c <= ' ' || c == 0x7f || c == '?' || c == '#' {
			return nil
		}
	}
	for i := 0; i < len(q.Method); i++ {
		c := q.Method[i]
		if !(c >= 'A' && c <= 'Z' || c >= 'a' && c <= 'z' || c >= '0' && c <= '9' || strings.IndexByte("!#$%&'*+-.^_`|~", c) >= 0) {
			return nil
		}
	}
	host := q.Host
	if host == "" {
		host = "example.com"
	}
	for i := 0; i < len(host); i++ {
		if c := host[i]; c <= ' ' || c >= 0x7f {
			return nil
		}
	}
	req, err := http.ReadRequest(bufio.NewReader(strings.NewReader(q.Method + " " + q.Path + " HTTP/1.1\r\nHost: " + host + "\r\n\r\n")))
	if err != nil || req.Method != q.Method || req.Host != host {
		return nil
	}
	seen := req.URL.RawPath
	if seen == "" {
		seen = req.URL.Path
	}
	if seen != q.Path {
		return nil
	}
	if q.Host == "" {
		req.Host = "example.com"
	}
	req.RemoteAddr = "192.0.2.1:1234"
	return req
}

func rNewRequest(q rReq) *http.Request {
	if q.Parsed && !q.Override {
		if req := rParsedRequest(q); req != nil {
			return req
		}
	}
	req := httptest.NewRequest(http.MethodGet, "/", nil)
	req.Method = q.Method
	req.URL.Path = q.Path
	req.URL.RawPath = ""
	if q.Raw {
		if dec, err := url.PathUnescape(q.Path); err == nil && dec != q.Path {
			req.URL.Path = dec
			req.URL.RawPath = q.Path
		}
	}
	if q.Host != "" {
		req.Host = q.Host
	}
	if q.Override {
		req.Method = http.MethodPost
		req.Header.Set(echo.HeaderXHTTPMethodOverride, q.Method)
	}
	return req
}

// rServe sends one request through e and fills *cur.
func rServe(e *echo.Echo, cur *rObs, q rReq) { rServeFwd(e, cur, q, nil) }

// rServeFwd: like rServe; with fwd != nil the handler that runs forwards internally to fwd before it returns.
func rServeFwd(e *echo.Echo, cur *rObs, q rReq, fwd *rReq) {
	*cur = cur.keep()
	cur.fwd = fwd
	func() {
		defer func() {
			if r := recover(); r != nil {
				k := cur.keep()
				*cur = rObs{Kind: 'P', Panic: fmt.Sprint(r)}
				cur.shared = k.shared
			}
		}()
		rec := httptest.NewRecorder()
		e.ServeHTTP(rec, rNewRequest(q))
		cur.Status = rec.Code
		if cur.Kind == 'D' {
			return
		}
		switch {
		case rec.Code == http.StatusNotFound:
			cur.Kind = 'N'
		case rec.Code == http.StatusMethodNotAllowed, rec.Code == http.StatusNoContent && rec.Result().Header.Get("Allow") != "":
			cur.Kind = 'M'
			cur.Allow = splitAllow(rec.Result().Header.Get("Allow"))
		default:
			cur.Kind = '?'
		}
	}()
}

// ---------- pattern helpers (model-free) ----------

const routeNotFound = "echo_route_not_found"

type rTok struct {
	kind byte // 'l' literal byte, 'p' param, 'a' any
	c    byte
}

// rNorm tokenises a registered pattern the way Router.insert reads it: `\:` is a literal
// colon, `:name` runs to the next '/', `*` ends the pattern (text after it is ignored).
func rNorm(p string) (toks []rTok, names []string, textAfterStar bool) {
	if p == "" || p[0] != '/' {
		p = "/" + p
	}
	for i := 0; i < len(p); i++ {
		switch {
		case p[i] == '\\' && i+1 < len(p) && p[i+1] == ':':
			toks = append(toks, rTok{'l', ':'})
			i++
		case p[i] == ':':
			j := i + 1
			for i < len(p) && p[i] != '/' {
				i++
			}
			names = append(names, p[j:i])
			toks = append(toks, rTok{kind: 'p'})
			i--
		case p[i] == '*':
			toks = append(toks, rTok{kind: 'a'})
			names = append(names, "*")
			return toks, names, i+1 < len(p)
		default:
			toks = append(toks, rTok{'l', p[i]})
		}
	}
	return toks, names, false
}

// rWFTable: the harness's own reading of "every pattern is representable" (Lean: Router.Tree.okTable): no
// pattern with an escaped colon or text after `*`.
func rWFTable(routes []rRoute) bool {
	seen := map[string]bool{}
	for _, r := range routes {
		toks, _, after := rNorm(r.Path)
		if after {
			return false
		}
		p := r.Path
		if p == "" || p[0] != '/' {
			p = "/" + p
		}
		// an escape met by the scan (a backslash-colon inside a parameter name is part of the name)
		for i := 0; i < len(p); i++ {
			if p[i] == '\\' && i+1 < len(p) && p[i+1] == ':' {
				return false
			}
			if p[i] == ':' {
				for i < len(p) && p[i] != '/' {
					i++
				}
				i--
			} else if p[i] == '*' {
				break
			}
		}
		_ = toks
	}
	_ = seen
	return true
}

// rHasReRegistration: some route (same method, same normalised pattern) is registered more than once.
func rHasReRegistration(routes []rRoute) bool {
	seen := map[string]bool{}
	for _, r := range routes {
		toks, _, _ := rNorm(r.Path)
		k := r.Method + " " + rTokKey(toks)
		if seen[k] {
			return true
		}
		seen[k] = true
	}
	return false
}

func rTokKey(toks []rTok) string {
	var b strings.Builder
	for _, t := range toks {
		switch t.kind {
		case 'l':
			b.WriteByte('l')
			b.WriteByte(t.c)
		case 'p':
			b.WriteString("P:")
		case 'a':
			b.WriteString("A*")
		}
	}
	return b.String()
}

// rInst substitutes values for the markers of a pattern.
func rInst(toks []rTok, vals []string) (string, bool) {
	var b strings.Builder
	k := 0
	for _, t := range toks {
		switch t.kind {
		case 'l':
			b.WriteByte(t.c)
		default:
			if k >= len(vals) {
				return "", false
			}
			b.WriteString(vals[k])
			k++
		}
	}
	return b.String(), k == len(vals)
}

// rMatchConservative: params take 1+ bytes without '/', `*` takes the rest (possibly empty).
func rMatchConservative(toks []rTok, path string) bool {
	if len(toks) == 0 {
		return path == ""
	}
	t := toks[0]
	switch t.kind {
	case 'l':
		return path != "" && path[0] == t.c && rMatchConservative(toks[1:], path[1:])
	case 'a':
		return true
	default:
		for i := 1; i <= len(path) && path[i-1] != '/'; i++ {
			if rMatchConservative(toks[1:], path[i:]) {
				return true
			}
		}
		return false
	}
}

// rMatchLiberal: an over-approximation of what the router can match: a parameter may also take zero bytes
// when the rest of the path is not empty (echo accepts an empty value in front of a `/`).
func rMatchLiberal(toks []rTok, path string) bool {
	if len(toks) == 0 {
		return path == ""
	}
	t := toks[0]
	switch t.kind {
	case 'l':
		return path != "" && path[0] == t.c && rMatchLiberal(toks[1:], path[1:])
	case 'a':
		return true
	default:
		if path == "" {
			return false
		}
		if len(toks) == 1 {
			return true // a parameter at the end of a pattern takes the whole rest, slashes included
		}
		for i := 0; i <= len(path) && (i == 0 || path[i-1] != '/'); i++ {
			if rMatchLiberal(toks[1:], path[i:]) {
				return true
			}
		}
		return false
	}
}

// ---------- generators ----------

var rLits = []string{"a", "b", "ab", "abc", "users", "x.y", "a-b", "new", "v1", "t{x}", "p|q", "abd", "ne", "next", "caf\xc3\xa9", "caf\xc3\xa8", "caf\xc3\xaa"}
var rParams = []string{":id", ":name", ":x", ":y"}

// every method with its own slot in routeMethods (router.go: the eleven standard ones), custom methods of the
// anyOther map, and the RouteNotFound pseudo method (must stay last)
var rMethods = []string{"GET", "POST", "PUT", "DELETE", "OPTIONS", "X-CUSTOM", "PROPFIND", "purge", "Baseline-Control",
	"PATCH", "HEAD", "CONNECT", "TRACE", "REPORT", "BATCH+JSON", "$SYNC~", "N!",
	// custom methods that look like one with a slot of its own: same length and first byte, prefix, extension, case twin
	"PURGE", "PING", "PRI", "REBIND", "CHECKIN", "get", "Post", "GETS", "DELET", routeNotFound}

var rBuiltinMethods = []string{"CONNECT", "DELETE", "GET", "HEAD", "OPTIONS", "PATCH", "POST", "PROPFIND", "PUT", "TRACE", "REPORT"}

// rNearMethod: a method name that is not m but close to it: same length and first byte (what a dispatch on a digest
// of the name confuses), same tail, a prefix, an extension, another letter case
func rNearMethod(r *rand.Rand, m string) string {
	if m == "" || m == routeNotFound {
		m = rBuiltinMethods[r.Intn(len(rBuiltinMethods))]
	}
	b := []byte(m)
	var out string
	switch r.Intn(9) {
	case 0: // same length, same first byte, other tail
		for i := 1; i < len(b); i++ {
			b[i] = "URGEINXS"[(int(b[i])+i)%8]
		}
		out = string(b)
	case 1: // same length, same first and last byte
		if len(b) > 2 {
			b[1+r.Intn(len(b)-2)] = 'Z'
		}
		out = string(b)
	case 2:
		out = strings.ToLower(m)
	case 3:
		out = m[:1] + strings.ToLower(m[1:])
	case 4:
		out = m + string("SX-1"[r.Intn(4)])
	case 5:
		out = m[:len(m)-1]
	case 6: // other first byte, same tail
		out = string("XQgp"[r.Intn(4)]) + m[1:]
	case 7:
		out = []string{"PURGE", "PING", "PUSH", "PULL", "PRI", "REBIND", "CHECKIN", "CHECKOUT", "HEAP", "TRACK", "GEX", "OPTIONX", "PROPFINE", "DELETX", "UNLOCK", "MKCOL"}[r.Intn(16)]
	default: // same bytes, other order
		for i, j := 0, len(b)-1; i < j; i, j = i+1, j-1 {
			b[i], b[j] = b[j], b[i]
		}
		out = string(b)
	}
	if out == "" || out == m || out == routeNotFound {
		out = m + "2"
	}
	return out
}

type rGenOpts struct {
	escaped  bool // allow `\:` segments
	maxRoute int
	dups     bool // allow a route to be registered again (same method, same normalised pattern)
	entry    bool // vary the entry point (Router.Add) and the leading slash
}

func rGenSegment(r *rand.Rand, o rGenOpts) string {
	switch k := r.Intn(20); {
	case k < 8:
		return rLits[r.Intn(len(rLits))]
	case k < 13:
		return rParams[r.Intn(len(rParams))]
	case k < 15:
		return rLits[r.Intn(3)] + rParams[r.Intn(len(rParams))] // in-segment param: literal prefix + :name
	case k < 16:
		return rLits[r.Intn(3)] + "." + rParams[r.Intn(len(rParams))]
	case k < 18 && o.escaped:
		switch r.Intn(10) {
		case 8:
			return rParams[r.Intn(len(rParams))] + `\:undelete` // a parameter followed by an escaped colon: all of it is the parameter's name
		case 9:
			return rParams[r.Intn(len(rParams))] + []string{`:x`, `\`, `\:`}[r.Intn(3)]
		case 0:
			return `a\:b`
		case 1:
			return `\:id`
		case 2:
			return `\:`
		case 3:
			return `x\\:y` // backslash backslash colon
		case 4:
			return `\:\:`
		case 5:
			return `b\` // trailing backslash
		case 6:
			return `v\:` + rParams[r.Intn(len(rParams))] // escaped colon directly followed by a parameter
		default:
			return `\b`
		}
	default:
		return rLits[r.Intn(4)]
	}
}

func rGenPattern(r *rand.Rand, o rGenOpts) string {
	n := r.Intn(4)
	var b strings.Builder
	switch r.Intn(40) {
	case 0: // rare sizes: many parameters on one route (more than any fixed small slice), ...
		n = 6 + r.Intn(6)
		for i := 0; i < n; i++ {
			b.WriteString("/:p" + strconv.Itoa(i))
		}
		if r.Intn(2) == 0 {
			b.WriteString("/*")
		}
		return b.String()
	case 1: // ... and a long literal segment
		return "/" + strings.Repeat("long-segment-", 5+r.Intn(20)) + rParams[r.Intn(len(rParams))]
	}
	for i := 0; i < n; i++ {
		b.WriteByte('/')
		b.WriteString(rGenSegment(r, o))
	}
	switch r.Intn(10) {
	case 0, 1:
		b.WriteString("/*")
	case 2:
		b.WriteString("/")
	case 3:
		if n > 0 {
			b.WriteString("*") // wildcard glued to the last segment: /ab*
		}
	}
	if b.Len() == 0 {
		return "/"
	}
	return b.String()
}

func rGenTable(r *rand.Rand, o rGenOpts) []rRoute {
	n := 1 + r.Intn(o.maxRoute)
	// a small pool of patterns so that prefixes and whole paths are shared
	pool := make([]string, 2+r.Intn(5))
	for i := range pool {
		pool[i] = rGenPattern(r, o)
	}
	var out []rRoute
	seen := map[string]bool{}
	for len(out) < n {
		p := pool[r.Intn(len(pool))]
		if r.Intn(4) == 0 {
			// extend an existing pattern
			p = strings.TrimSuffix(strings.TrimSuffix(p, "/*"), "*")
			if !strings.HasSuffix(p, "/") {
				p += "/"
			}
			p += rGenSegment(r, o)
			if r.Intn(4) == 0 {
				p += "/*"
			}
		}
		var m string
		switch k := r.Intn(20); {
		case k < 10:
			m = "GET"
		case k < 14:
			m = "POST"
		case k < 15:
			m = routeNotFound
		case k < 19 || len(out) == 0:
			m = rMethods[r.Intn(len(rMethods))]
		default: // a look-alike of a method the table already uses
			m = rNearMethod(r, out[r.Intn(len(out))].Method)
		}
		toks, _, _ := rNorm(p)
		key := m + " " + rTokKey(toks)
		if seen[key] && !(o.dups && r.Intn(2) == 0) {
			if r.Intn(3) == 0 {
				break
			}
			continue
		}
		if seen[key] && strings.Contains(p, ":") && r.Intn(2) == 0 {
			p = strings.Replace(p, ":", ":re", 1) // the re-registration names its parameter differently
		}
		seen[key] = true
		rt := rRoute{Method: m, Path: p}
		if o.entry {
			if r.Intn(8) == 0 {
				rt.Direct = true
			}
			if r.Intn(10) == 0 {
				rt.Path = strings.TrimPrefix(rt.Path, "/") // registered without the leading slash
			}
		}
		out = append(out, rt)
	}
	if len(out) == 0 {
		out = append(out, rRoute{Method: "GET", Path: "/"})
	}
	if len(out) < n+2 && r.Intn(8) == 0 {
		// siblings that part inside a multi-byte character (same lead byte, other continuation byte): the twin of a
		// route that has such a literal, else two new ones below an existing route
		base := out[r.Intn(len(out))]
		twin := func(p, from, to string) {
			rt := rRoute{Method: base.Method, Path: strings.Replace(p, from, to, 1)}
			toks, _, _ := rNorm(rt.Path)
			if key := rt.Method + " " + rTokKey(toks); !seen[key] {
				seen[key] = true
				out = append(out, rt)
			}
		}
		if strings.Contains(base.Path, "\xc3\xa9") {
			twin(base.Path, "\xc3\xa9", "\xc3\xa8")
			if r.Intn(2) == 0 {
				twin(base.Path, "\xc3\xa9", "\xc3\xaa")
			}
		} else if p := strings.TrimSuffix(strings.TrimSuffix(base.Path, "/*"), "*"); !strings.HasSuffix(p, "/") {
			twin(p+"/caf\xc3\xa9", "~", "~")
			twin(p+"/caf\xc3\xa9", "\xc3\xa9", "\xc3\xa8")
		}
	}
	return out
}

var rValues = []string{"", "a", "ab", "b", "a/b", "a:b", "%41", "\xc3\xa9", "users", "1", "x.y", "new", ":", "*", "abc/", "/", "..", "a/../b", ".", "x/..", "\x00", " ", "a\tb", "\x7f", "%00", "%2F", "+", "{id}", "a|b", "a%41{b}", "x|%7C^", "`"}

func rInstancePath(r *rand.Rand, p string) string {
	toks, _, _ := rNorm(p)
	var b strings.Builder
	for _, t := range toks {
		switch t.kind {
		case 'l':
			b.WriteByte(t.c)
		case 'p':
			v := rValues[r.Intn(len(rValues))]
			if r.Intn(3) > 0 && (v == "" || strings.Contains(v, "/")) {
				v = "v" + wInt(r.Intn(10))
			}
			b.WriteString(v)
		case 'a':
			b.WriteString(rValues[r.Intn(len(rValues))])
			if r.Intn(3) == 0 {
				b.WriteString("/" + rValues[r.Intn(len(rValues))])
			}
		}
	}
	return b.String()
}

func rMutatePath(r *rand.Rand, p string) string {
	if p == "" {
		return "/"
	}
	switch r.Intn(10) {
	case 7: // duplicate a segment (a repeated segment right after an empty one is what a parameter that wrongly
		// swallows a slash needs in order to still match the rest of its pattern)
		seg := strings.Split(p, "/")
		if len(seg) > 1 {
			i := 1 + r.Intn(len(seg)-1)
			seg = append(seg[:i+1], seg[i:]...)
		}
		return strings.Join(seg, "/")
	case 8: // empty a segment and repeat the next one: /a/x/b -> /a//b/b
		seg := strings.Split(p, "/")
		if len(seg) > 2 {
			i := 1 + r.Intn(len(seg)-2)
			seg[i] = ""
			seg = append(seg[:i+2], seg[i+1:]...)
		}
		return strings.Join(seg, "/")
	case 9: // double one of the slashes
		var at []int
		for i := 0; i < len(p); i++ {
			if p[i] == '/' {
				at = append(at, i)
			}
		}
		if len(at) == 0 {
			return p + "//"
		}
		i := at[r.Intn(len(at))]
		return p[:i] + "/" + p[i:]
	case 0: // drop a byte
		i := r.Intn(len(p))
		return p[:i] + p[i+1:]
	case 1: // insert a byte
		i := r.Intn(len(p) + 1)
		return p[:i] + string("ab/:*.x"[r.Intn(7)]) + p[i:]
	case 2:
		return p + "/"
	case 3:
		return strings.TrimSuffix(p, "/")
	case 4: // swap two segments
		seg := strings.Split(p, "/")
		if len(seg) > 2 {
			i, j := 1+r.Intn(len(seg)-1), 1+r.Intn(len(seg)-1)
			seg[i], seg[j] = seg[j], seg[i]
		}
		return strings.Join(seg, "/")
	case 5:
		return p + "/" + rValues[r.Intn(len(rValues))]
	default:
		i := r.Intn(len(p))
		return p[:i]
	}
}

func rGenPath(r *rand.Rand, routes []rRoute) string {
	if r.Intn(50) == 0 {
		return "*" // the asterisk form of a request target (OPTIONS *)
	}
	var p string
	switch k := r.Intn(10); {
	case k < 6:
		p = rInstancePath(r, routes[r.Intn(len(routes))].Path)
	case k < 9:
		p = rMutatePath(r, rInstancePath(r, routes[r.Intn(len(routes))].Path))
	default:
		n := r.Intn(10)
		b := []byte{'/'}
		for i := 0; i < n; i++ {
			b = append(b, "ab/:*.xu1"[r.Intn(9)])
		}
		p = string(b)
	}
	if p == "" || p[0] != '/' {
		// the router also sees paths that do not start with '/': keep a few
		if r.Intn(4) > 0 {
			p = "/" + p
		}
	}
	return p
}

func rGenMethod(r *rand.Rand, routes []rRoute) string {
	switch k := r.Intn(10); {
	case k < 5:
		m := routes[r.Intn(len(routes))].Method
		if m == routeNotFound {
			return "GET"
		}
		return m
	case k < 7:
		return "GET"
	case k < 8:
		return "OPTIONS"
	case k < 9:
		return rMethods[r.Intn(len(rMethods)-1)]
	default: // a look-alike of a method of the table
		return rNearMethod(r, routes[r.Intn(len(routes))].Method)
	}
}

func rMaxParam(routes []rRoute) int {
	m := 0
	for _, r := range routes {
		_, names, _ := rNorm(r.Path)
		if len(names) > m {
			m = len(names)
		}
	}
	return m
}

func rHasTextAfterStar(routes []rRoute) bool {
	for _, r := range routes {
		if _, _, t := rNorm(r.Path); t {
			return true
		}
	}
	return false
}

// rColonClash: the F2 class — the table contains an escaped colon (a literal ':' token) and a
// parameter marker of another (or the same) route at a position with the same token prefix.
func rColonClash(routes []rRoute) bool {
	type pos struct{ lit, par bool }
	seen := map[string]*pos{}
	for _, r := range routes {
		toks, _, _ := rNorm(r.Path)
		for i, t := range toks {
			k := rTokKey(toks[:i])
			p := seen[k]
			if p == nil {
				p = &pos{}
				seen[k] = p
			}
			if t.kind == 'l' && t.c == ':' {
				p.lit = true
			}
			if t.kind == 'p' {
				p.par = true
			}
		}
	}
	for _, p := range seen {
		if p.lit && p.par {
			return true
		}
	}
	return false
}

// rLitColonOrStar: a literal ':' or '*' byte can only get into a pattern through `\:`; a
// literal '*' cannot be expressed at all (every '*' is the wildcard).
func rShrinkRoutes(routes []rRoute) [][]rRoute {
	var out [][]rRoute
	for i := range routes {
		if len(routes) > 1 {
			d := append(append([]rRoute(nil), routes[:i]...), routes[i+1:]...)
			out = append(out, d)
		}
	}
	return out
}

func rShrinkString(s string) []string {
	var out []string
	for i := 0; i < len(s); i++ {
		out = append(out, s[:i]+s[i+1:])
	}
	return out
}
