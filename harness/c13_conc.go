package main

// C13 — deterministic concurrent stream (oracle only, no model line).
//
// ONE BasicAuth / KeyAuth middleware instance serves 2-3 requests that overlap in a fixed way: request i
// runs in its own goroutine; when its validator is called for the BlockAt[i]-th time it stops inside the
// validator, request i+1 is then served COMPLETELY (recursively, so it may itself stop and let request
// i+2 through), and only then request i continues.  Sequencing uses channels only — no timing, no sleeps;
// a request that never reaches its stop point simply completes and the next one is served after it.
// Every request is judged on its own with the same model-free oracle as the sequential cases: the handler
// ran => the validator said yes to a credential literally present in THAT request; every validator call's
// argument is literally derivable from THAT request.  This is what exposes state shared between requests
// inside the middleware or the extractors (e.g. a result buffer reused across calls).

import (
	"fmt"
	"math/rand"
	"net/http"
	"net/http/httptest"
	"strconv"
	"strings"
	"sync"

	"github.com/labstack/echo/v4"
	"github.com/labstack/echo/v4/middleware"
)

const c13ReqHeader = "X-Verif-Req"

type c13ConcState struct {
	mu     sync.Mutex
	bcalls [][]c13Call // BasicAuth validator calls per request
	kcalls [][]string  // KeyAuth validator calls per request
	ran    []bool
	// sequencing
	blocked []chan struct{} // closed when request i stops inside its validator
	release []chan struct{} // closed when request i may continue
	ncalls  []int
}

func c13ReqID(ctx echo.Context, n int) int {
	id, err := strconv.Atoi(ctx.Request().Header.Get(c13ReqHeader))
	if err != nil || id < 0 || id >= n {
		return -1
	}
	return id
}

func c13RunConc(c *c13Case) (res Result) {
	n := len(c.Sub)
	if n == 0 {
		return res
	}
	cfg := c.Sub[0] // configuration and validator table of the ONE middleware instance
	basic := cfg.Mode == 0
	// every request is judged against the configuration that is really installed
	subs := make([]*c13Case, n)
	for i, s := range c.Sub {
		d := *s
		d.Mode, d.Default, d.Table, d.ErrValid = cfg.Mode, cfg.Default, cfg.Table, cfg.ErrValid
		d.Lookup, d.Scheme, d.EH, d.Cont, d.Realm = cfg.Lookup, cfg.Scheme, cfg.EH, cfg.Cont, cfg.Realm
		d.Ctor, d.Skipper = 0, cfg.Skipper // one instance, built with ...WithConfig; Skip stays per request
		subs[i] = &d
	}
	st := &c13ConcState{
		bcalls: make([][]c13Call, n), kcalls: make([][]string, n), ran: make([]bool, n),
		blocked: make([]chan struct{}, n), release: make([]chan struct{}, n), ncalls: make([]int, n),
	}
	for i := range st.blocked {
		st.blocked[i] = make(chan struct{})
		st.release[i] = make(chan struct{})
	}
	blockAt := func(i int) int {
		if i < len(c.BlockAt) {
			return c.BlockAt[i]
		}
		return -1
	}
	// called inside a validator call of request id, after the call was logged
	pause := func(id int) {
		st.mu.Lock()
		k := st.ncalls[id]
		st.ncalls[id]++
		st.mu.Unlock()
		if k == blockAt(id) && id+1 < n {
			close(st.blocked[id])
			<-st.release[id]
		}
	}

	var mw echo.MiddlewareFunc
	cfgPanic := func() (p bool) {
		defer func() {
			if r := recover(); r != nil {
				p = true
			}
		}()
		if basic {
			mw = middleware.BasicAuthWithConfig(middleware.BasicAuthConfig{
				Skipper: c13Skipper(cfg),
				Realm:   cfg.Realm,
				Validator: func(u, p string, ctx echo.Context) (bool, error) {
					id := c13ReqID(ctx, n)
					if id >= 0 {
						st.mu.Lock()
						st.bcalls[id] = append(st.bcalls[id], c13Call{u, p})
						st.mu.Unlock()
						pause(id)
					}
					return c13Outcome(cfg.lookup([]byte(u), []byte(p)), cfg.ErrValid)
				},
			})
			return false
		}
		kc := middleware.KeyAuthConfig{
			Skipper:   c13Skipper(cfg),
			KeyLookup: cfg.Lookup, AuthScheme: cfg.Scheme, ContinueOnIgnoredError: cfg.Cont,
			Validator: func(key string, ctx echo.Context) (bool, error) {
				id := c13ReqID(ctx, n)
				if id >= 0 {
					st.mu.Lock()
					st.kcalls[id] = append(st.kcalls[id], key)
					st.mu.Unlock()
					pause(id)
				}
				return c13Outcome(cfg.lookup([]byte(key), nil), cfg.ErrValid)
			},
		}
		if cfg.EH != 0 {
			kc.ErrorHandler = func(err error, _ echo.Context) error {
				switch cfg.EH {
				case 1:
					return nil
				case 2:
					return err
				}
				return echo.NewHTTPError(cfg.EH)
			}
		}
		mw = middleware.KeyAuthWithConfig(kc)
		return false
	}()
	if cfgPanic {
		res.Tags = []string{"conc:config-panic"}
		return res
	}
	e := echo.New()
	e.Use(mw)
	h := func(ctx echo.Context) error {
		if id := c13ReqID(ctx, n); id >= 0 {
			st.mu.Lock()
			st.ran[id] = true
			st.mu.Unlock()
		}
		return ctx.NoContent(http.StatusOK)
	}
	e.Any("/", h)
	e.Any("/p/:key/:other", h)
	e.Any(c13ManyRoute(), h)

	recs := make([]*httptest.ResponseRecorder, n)
	panics := make([]string, n)
	overlapped := false
	var serve func(i int)
	serve = func(i int) {
		if i >= n {
			return
		}
		var req *http.Request
		if basic {
			req = c13BasicRequest(subs[i])
		} else {
			req = c13Request(subs[i])
		}
		req.Header.Set(c13ReqHeader, strconv.Itoa(i))
		recs[i] = httptest.NewRecorder()
		done := make(chan struct{})
		go func() {
			defer close(done)
			defer func() {
				if r := recover(); r != nil {
					panics[i] = fmt.Sprint(r)
				}
			}()
			e.ServeHTTP(recs[i], req)
		}()
		select {
		case <-st.blocked[i]:
			overlapped = true
			serve(i + 1) // served completely while request i sits inside its validator
			close(st.release[i])
			<-done
		case <-done:
			serve(i + 1)
		}
	}
	serve(0)

	// ---- per-request model-free oracle
	for i := 0; i < n; i++ {
		var o string
		switch {
		case panics[i] != "":
			o = "middleware panicked: " + panics[i]
		case basic:
			o, _, _ = c13BasicOracle(subs[i], st.bcalls[i], st.ran[i], recs[i].Code)
		default:
			srcs, ok := c13Sources(subs[i])
			if !ok {
				continue
			}
			located := make([][]c13Pair, len(srcs))
			for k, s := range srcs {
				located[k] = c13Located(subs[i], s)
			}
			o = c13KeyOracle(subs[i], srcs, located, st.kcalls[i], st.ran[i], recs[i].Code)
		}
		if o != "" && res.Oracle == "" {
			res.Oracle = fmt.Sprintf("request %d of %d through one middleware instance (overlapping=%v): %s", i, n, overlapped, o)
		}
	}
	if basic {
		res.Tags = append(res.Tags, "conc:basic")
	} else {
		res.Tags = append(res.Tags, "conc:key")
	}
	if overlapped {
		res.Tags = append(res.Tags, "conc:overlapped")
	} else {
		res.Tags = append(res.Tags, "conc:sequential-reuse")
	}
	res.Nontrivial = overlapped
	return res
}

// ---------- generator ----------

func c13GenConc(r *rand.Rand) *c13Case {
	c := &c13Case{Mode: 2}
	n := 2 + r.Intn(2)
	good, bads := "good-key", []string{"bad1", "bad2", "other", "nope", "good-ke", "good-key2", ""}
	if r.Intn(4) == 0 {
		// BasicAuth: one validator call per request; a later request must not leak into an earlier one
		tbl := []c13Entry{{U: []byte("joe"), P: []byte("pw:x"), Out: 1}, {U: []byte("err"), P: []byte("x"), Out: c13Pick(r, c13ErrCodes)}}
		for i := 0; i < n; i++ {
			s := &c13Case{Mode: 0, Table: tbl}
			k := 1 + r.Intn(2)
			for j := 0; j < k; j++ {
				u, p := c13Pick(r, []string{"joe", "joe", "eve", "err", "joe:pw"}), c13Pick(r, []string{"pw:x", "pw:x", "pw", "x", ""})
				s.Auth = append(s.Auth, []byte(c13Pick(r, []string{"Basic ", "basic ", "BASIC "})+c13Payload(r, u+":"+p)))
			}
			c.Sub = append(c.Sub, s)
			c.BlockAt = append(c.BlockAt, 0)
		}
		c13ConcSkips(r, c)
		return c
	}
	type srcSpec struct{ lookup, kind, name, pre string }
	pool := []srcSpec{
		{"header:Authorization", "header", "Authorization", "Bearer "},
		{"header:Authorization", "header", "Authorization", "Bearer "},
		{"header:X-Api-Key", "header", "X-Api-Key", ""},
		{"header:X-Api-Key:Key ", "header", "X-Api-Key", "Key "},
		{"query:key", "query", "key", ""},
		{"form:key", "form", "key", ""},
		{"cookie:key", "cookie", "key", ""},
	}
	ns := 1
	if r.Intn(3) == 0 {
		ns = 2
	}
	var specs []srcSpec
	var lk []string
	for i := 0; i < ns; i++ {
		s := c13Pick(r, pool)
		specs = append(specs, s)
		lk = append(lk, s.lookup)
	}
	cfg := &c13Case{Mode: 1, Lookup: strings.Join(lk, ","), Default: 0}
	cfg.Table = []c13Entry{{U: []byte(good), Out: 1}, {U: []byte("nope"), Out: c13Pick(r, c13ErrCodes)}}
	cfg.EH = c13Pick(r, []int{0, 0, 0, 1, 2, 403})
	cfg.Cont = r.Intn(6) == 0
	cfg.ErrValid = r.Intn(2) == 0
	for i := 0; i < n; i++ {
		s := &c13Case{Mode: 1}
		// the first request mostly carries only refused keys, later ones mostly an accepted key behind a refused one
		pGood := 3
		if i == 0 {
			pGood = 8
		}
		for _, sp := range specs {
			k := 1 + r.Intn(3)
			if r.Intn(3) != 0 && k < 2 {
				k = 2
			}
			var vals []string
			for j := 0; j < k; j++ {
				v := c13Pick(r, bads)
				if r.Intn(pGood) == 0 || (i > 0 && j == k-1 && r.Intn(2) == 0) {
					v = good
				}
				vals = append(vals, v)
			}
			switch sp.kind {
			case "header":
				h := c13Hdr{Name: sp.name}
				for _, v := range vals {
					h.Values = append(h.Values, []byte(sp.pre+v))
				}
				s.Headers = append(s.Headers, h)
			case "query":
				for _, v := range vals {
					s.Query = append(s.Query, c13KV{[]byte(sp.name), []byte(v)})
				}
			case "form":
				for _, v := range vals {
					s.Form = append(s.Form, c13KV{[]byte(sp.name), []byte(v)})
				}
			case "cookie":
				var parts []string
				for _, v := range vals {
					if v == "" {
						v = "x"
					}
					parts = append(parts, sp.name+"="+v)
				}
				s.Cookie = append(s.Cookie, strings.Join(parts, "; "))
			}
		}
		c.Sub = append(c.Sub, s)
		c.BlockAt = append(c.BlockAt, c13Pick(r, []int{0, 0, 0, 1, 1, 2, -1}))
	}
	// the installed configuration travels with the first request
	c.Sub[0].Lookup, c.Sub[0].Default, c.Sub[0].Table = cfg.Lookup, cfg.Default, cfg.Table
	c.Sub[0].EH, c.Sub[0].Cont, c.Sub[0].ErrValid = cfg.EH, cfg.Cont, cfg.ErrValid
	c13ConcSkips(r, c)
	return c
}

// now and then the one instance has a custom Skipper and some of the requests are skipped: a skipped request
// between two authenticated ones must neither inherit nor leave anything behind
func c13ConcSkips(r *rand.Rand, c *c13Case) {
	if r.Intn(4) != 0 {
		return
	}
	c.Sub[0].Skipper = 1
	for _, s := range c.Sub {
		s.Skip = r.Intn(3) == 0
	}
}

// ---------- shrinking ----------

func c13ShrinkConc(c *c13Case) []any {
	var out []any
	cp := func() *c13Case {
		d := *c
		d.Sub = nil
		for _, s := range c.Sub {
			d.Sub = append(d.Sub, c13Clone(s))
		}
		d.BlockAt = append([]int(nil), c.BlockAt...)
		return &d
	}
	// drop a request other than the first (which carries the configuration)
	for i := 1; i < len(c.Sub); i++ {
		if len(c.Sub) <= 2 {
			break
		}
		d := cp()
		d.Sub = append(d.Sub[:i], d.Sub[i+1:]...)
		if i < len(d.BlockAt) {
			d.BlockAt = append(d.BlockAt[:i], d.BlockAt[i+1:]...)
		}
		out = append(out, d)
	}
	// drop one located value of one request
	for i, s := range c.Sub {
		for hi, h := range s.Headers {
			if len(h.Values) > 1 {
				for j := range h.Values {
					d := cp()
					v := d.Sub[i].Headers[hi].Values
					d.Sub[i].Headers[hi].Values = append(v[:j:j], v[j+1:]...)
					out = append(out, d)
				}
			}
		}
		if len(s.Auth) > 1 {
			for j := range s.Auth {
				d := cp()
				d.Sub[i].Auth = append(d.Sub[i].Auth[:j:j], d.Sub[i].Auth[j+1:]...)
				out = append(out, d)
			}
		}
		for j := range s.Query {
			d := cp()
			d.Sub[i].Query = append(d.Sub[i].Query[:j:j], d.Sub[i].Query[j+1:]...)
			out = append(out, d)
		}
		for j := range s.Form {
			d := cp()
			d.Sub[i].Form = append(d.Sub[i].Form[:j:j], d.Sub[i].Form[j+1:]...)
			out = append(out, d)
		}
	}
	// simpler configuration
	if strings.Contains(c.Sub[0].Lookup, ",") {
		parts := strings.Split(c.Sub[0].Lookup, ",")
		for i := range parts {
			d := cp()
			d.Sub[0].Lookup = strings.Join(append(append([]string(nil), parts[:i]...), parts[i+1:]...), ",")
			out = append(out, d)
		}
	}
	if c.Sub[0].Skipper != 0 {
		d := cp()
		d.Sub[0].Skipper = 0
		out = append(out, d)
	}
	if c.Sub[0].EH != 0 || c.Sub[0].Cont || c.Sub[0].ErrValid {
		d := cp()
		d.Sub[0].EH, d.Sub[0].Cont, d.Sub[0].ErrValid = 0, false, false
		out = append(out, d)
	}
	return out
}
