package main

// C18 — which differences between the implementation's and the model's decisions are OUTSIDE the property.
//
// The property fixes, per identifier: an UPPER bound (at most burst + rate*d admissions in any interval, expiry of an
// idle identifier never grants more than one fresh burst), a LOWER bound (a request is refused only when that
// identifier's own allowance is used up; nobody else's traffic consumes it), and the middleware mapping (handler
// exactly for admitted requests, 429 for the rest).  The Lean model mirrors more than that: WHEN the store forgets
// an idle identifier (the sweep schedule, `lastCleanup`, staleness by `lastSeen`).  Forgetting is only ever a
// gift: the identifier's next request finds a full bucket instead of its true one.  Under the property's side
// condition (ExpiresIn*rate >= burst) a forgotten bucket was full anyway, so forgetting is unobservable
// (C18_sweep_unobservable); outside it (a configuration the quantifier excludes) and in the corner where
// `lastSeen` is older than the limiter's own `last` (a goroutine delayed after Unlock) the model's store hands out
// tokens the rate has not earned.  An implementation that forgets LESS — later, or only full buckets — answers
// between the model and the exact per-identifier token bucket that never forgets, and that band is exactly what
// the property allows.
//
// c18Tolerable re-runs the case (the run is deterministic), insists that the re-run reproduces the implementation's
// line, and replays the Allow calls against the harness's own reference arithmetic (exact scaled integers, the
// dependency's 1 ns truncation included), per store and per identifier, on TWO tracks that are both charged with
// the implementation's own admissions:
//   F  the model's store: forgets at its sweeps (limiters held by pointer: a parked goroutine keeps its orphan)
//   K  the exact bucket of the identifier: never forgets, and never credits an interval twice (its clock does not go
//      back when a reading arrives out of order)
// K's level <= F's level at every instant.  A difference is tolerated only if
//   every admission is one F can afford   (never: an admission beyond what the model's store would grant), and
//   every refusal is one K cannot afford  (never: a refusal while the identifier's own exact allowance is not used up),
// and everything else on the line is as the property demands of those very decisions: handler ran <=> every limiter
// of the route's chain admitted, 200 / 429 / 0 (direct call), BeforeFunc once per limiter reached; requests that do
// not reach a store (Skipper, extractor error: 403) exactly as in the model.  Cross-identifier influence cannot hide
// in the band: both tracks are per identifier, and WHEN F forgets depends on the call instants only, not on anybody's
// decisions.  Never tolerated: anything that does not parse, a different number of events, skew / stress / many-
// identifier cases (no sweep is involved there), panics, model errors.
//
// Not on the observation line at all (so never a difference): the wording of the 429 / 403 bodies, the error values
// handed to echo's error handler, response headers (Retry-After ...).

import (
	"math/bits"
	"strconv"
	"strings"
)

type c18RefCfg struct {
	num, scale, full, burst, exp int64
}

func c18RefCfgOf(sp c18SP) c18RefCfg {
	g := c18RefCfg{num: sp.RateNum, scale: sp.RateDen * c18Second, burst: sp.effBurst(), exp: sp.effExpires()}
	g.full = g.burst * g.scale
	return g
}

// a rate.Limiter in exact arithmetic: tokens scaled by rateDen*1e9 (C18.Bucket)
type c18RefBucket struct {
	tok, last int64
}

func (g c18RefCfg) fresh() *c18RefBucket { return &c18RefBucket{tok: g.full} }

// C18.advance
func (g c18RefCfg) level(b *c18RefBucket, t int64) int64 {
	dt := t - b.last
	if dt < 0 {
		dt = 0
	}
	hi, lo := bits.Mul64(uint64(g.num), uint64(dt))
	room := g.full - b.tok // >= 0; larger than full on a K track that has been overdrawn
	if hi != 0 || lo >= uint64(room) {
		return g.full
	}
	return b.tok + int64(lo)
}

// C18.allowN: would AllowN(t, 1) admit?
func (g c18RefCfg) can(b *c18RefBucket, t int64) bool {
	if g.burst < 1 {
		return false
	}
	tokens := g.level(b, t) - g.scale
	return tokens >= 0 || -tokens < g.num
}

func (g c18RefCfg) take(b *c18RefBucket, t int64) {
	b.tok = g.level(b, t) - g.scale
	b.last = t
}

type c18RefEntry struct {
	b        *c18RefBucket
	lastSeen int64
}

// the model's store (C18.lockStep) next to the never-forgetting buckets
type c18RefStore struct {
	g           c18RefCfg
	vis         map[string]*c18RefEntry
	lastCleanup int64
	keep        map[string]*c18RefBucket
}

func c18NewRefStore(sp c18SP, t0 int64) *c18RefStore {
	return &c18RefStore{g: c18RefCfgOf(sp), vis: map[string]*c18RefEntry{}, lastCleanup: t0, keep: map[string]*c18RefBucket{}}
}

// the locked part of Allow: the limiter the goroutine goes on with on either track
func (s *c18RefStore) lock(id string, t int64) (f, k *c18RefBucket) {
	e := s.vis[id]
	if e == nil {
		e = &c18RefEntry{b: s.g.fresh()}
		s.vis[id] = e
	}
	e.lastSeen = t
	if t-s.lastCleanup > s.g.exp {
		for n, v := range s.vis {
			if t-v.lastSeen > s.g.exp {
				delete(s.vis, n)
			}
		}
		s.lastCleanup = t
	}
	if s.keep[id] == nil {
		s.keep[id] = s.g.fresh()
	}
	return e.b, s.keep[id]
}

// the unlocked tail with the implementation's decision: false = outside the band
func (s *c18RefStore) tail(f, k *c18RefBucket, t int64, implOK bool) bool {
	if implOK {
		if !s.g.can(f, t) {
			return false // more than even the forgetting store grants
		}
		s.g.take(f, t)
		s.g.take(k, s.g.ideal(k, t))
		return true
	}
	if t < k.last {
		// a reading older than one the identifier's bucket has already seen (the goroutine was overtaken after its
		// clock reading): what the exact allowance "at that instant" is, is not defined by later history; only the
		// model's own answer for that limiter is accepted
		return !s.g.can(f, t)
	}
	return !s.g.can(k, t) // refused although the identifier's own exact allowance is not used up
}

// K is an IDEAL bucket: a reading older than one it has already seen (a goroutine overtaken after its clock
// reading, finding F19) does not move its clock back, so no interval is credited twice and K stays a lower bound
func (g c18RefCfg) ideal(k *c18RefBucket, t int64) int64 {
	if t < k.last {
		return k.last
	}
	return t
}

type c18TolEv struct {
	ran            bool
	status, before int
}

func c18TolParse(line string) (evs []c18TolEv, ok bool) {
	t := strings.Fields(line)
	if len(t) == 0 {
		return nil, false
	}
	n, err := strconv.Atoi(t[0])
	if err != nil || n < 0 || len(t) != 1+3*n {
		return nil, false
	}
	for i := 0; i < n; i++ {
		f := t[1+3*i : 4+3*i]
		if f[0] != "0" && f[0] != "1" {
			return nil, false
		}
		st, e1 := strconv.Atoi(f[1])
		bf, e2 := strconv.Atoi(f[2])
		if e1 != nil || e2 != nil || st < 0 || bf < 0 {
			return nil, false
		}
		evs = append(evs, c18TolEv{ran: f[0] == "1", status: st, before: bf})
	}
	return evs, true
}

func c18Tolerable(ci any, implObs, modelObs string) bool {
	c, ok := ci.(*c18Case)
	if !ok || !c.valid() || c.NilStore || c.Many > 0 || c.StressIDs > 0 || c.StressG > 0 || c.Skew || !c.Exact {
		return false
	}
	c18Alone.RLock()
	defer c18Alone.RUnlock()
	if c.Split {
		return c18TolerableSplit(c, implObs, modelObs)
	}
	for _, ev := range c.Evs {
		if ev.Kind == c18DirectAt {
			return false
		}
	}
	if !c18Monotone(c) {
		return false
	}
	model, ok := c18TolParse(modelObs)
	if !ok || len(model) != len(c.Evs) {
		return false
	}
	impl, ok := c18TolParse(implObs)
	if !ok || len(impl) != len(c.Evs) {
		return false
	}
	// the run is deterministic: the re-run must give the very line (and it yields the per-store call log)
	obs, p := c18Drive(c, c.Evs)
	if p != "" || len(obs) != len(c.Evs) {
		return false
	}
	if _, line := c18Wire(c, obs); line != implObs {
		return false
	}
	sps := c.stores()
	refs := make([]*c18RefStore, len(sps))
	for k, sp := range sps {
		refs[k] = c18NewRefStore(sp, c.T0)
	}
	for i, ev := range c.Evs {
		o := obs[i]
		if o.bad != "" {
			return false
		}
		switch ev.Kind {
		case c18HTTPSkip, c18HTTPErr:
			// no store is asked: nothing of the model's sweep schedule is involved
			if len(o.calls) != 0 || impl[i] != model[i] {
				return false
			}
			continue
		}
		chain := c.chain(ev)
		if ev.Kind == c18Direct {
			chain = chain[:1]
		}
		// the limiters of the chain in order, each asked once, nothing behind the first refusal
		allOK := true
		for pos, cl := range o.calls {
			if pos >= len(chain) || !allOK || cl.store != chain[pos] || cl.id != ev.ID || cl.t != ev.T {
				return false
			}
			f, k := refs[cl.store].lock(cl.id, cl.t)
			if !refs[cl.store].tail(f, k, cl.t, cl.ok) {
				return false
			}
			allOK = cl.ok
		}
		if len(o.calls) == 0 || allOK && len(o.calls) != len(chain) {
			return false
		}
		// what the property demands of these very decisions
		want := c18TolEv{ran: allOK}
		if ev.Kind == c18HTTP {
			want.status = 200
			if !allOK {
				want.status = 429
			}
			if c.Before {
				want.before = len(o.calls)
			}
		}
		if impl[i] != want {
			return false
		}
	}
	return true
}

// split cases: the schedule of locked parts and tails as played, `m ok*` on both lines
func c18TolerableSplit(c *c18Case, implObs, modelObs string) bool {
	if !c.splitValid() {
		return false
	}
	mt := strings.Fields(modelObs)
	it := strings.Fields(implObs)
	if len(mt) == 0 || len(mt) != len(it) || mt[0] != it[0] {
		return false
	}
	for _, x := range append(append([]string(nil), mt[1:]...), it[1:]...) {
		if x != "0" && x != "1" {
			return false
		}
	}
	adm, steps, _, p := c18DriveSplit(c)
	if p != "" {
		return false
	}
	ref := c18NewRefStore(c.sp0(), c.T0)
	type held struct{ f, k *c18RefBucket }
	hold := map[int]held{}
	out := []string{}
	for _, s := range steps {
		if !s.tail {
			f, k := ref.lock(c.Evs[s.idx].ID, s.t)
			hold[s.idx] = held{f, k}
			continue
		}
		h, ok := hold[s.idx]
		if !ok {
			return false
		}
		if !ref.tail(h.f, h.k, s.t, adm[s.idx]) {
			return false
		}
		out = append(out, wBool(adm[s.idx]))
	}
	line := strings.Join(append([]string{wInt(len(out))}, out...), " ")
	return line == implObs
}
