package main

// C16: configurations whose root is relative to the process working directory.
//
// echo's default filesystem (Echo.Static / Group.Static without a custom fs.FS) and
// http.Dir("relative") resolve against the working directory.  The harness process never
// changes its own working directory; such cases are executed in a long-lived child process of
// the same binary, started with cmd.Dir set to
//
//	"W"    the work directory (roots "public", "./public/")
//	"root" the web root W/public itself (roots ".", "", "./", "dir/.." — everything that cleans
//	       to "."), so that the secrets live in the PARENT of the working directory.
//
// The child is this binary with the environment variable VERIF_C16_CHILD_TREE set (hidden
// mode, handled in init() before main parses its arguments): it attaches to the marker tree
// its parent created, reads one case (JSON) per line on stdin, runs the ordinary c16Run on it
// and prints the Result (JSON) on stdout.

import (
	"bufio"
	"encoding/json"
	"fmt"
	"io"
	"os"
	"os/exec"
	"path/filepath"
	"sync"
)

const c16ChildEnv = "VERIF_C16_CHILD_TREE"

func init() {
	if os.Getenv(c16ChildEnv) != "" {
		c16ChildMain()
		os.Exit(0)
	}
}

// c16CaseCwd says in which working directory a case has to run ("" = any).
func c16CaseCwd(c *c16Case) string {
	switch c.Kind {
	case 0:
		switch c.FS {
		case 1, 8, 11, 16:
			return "W"
		case 9, 10, 12, 13:
			return "root"
		}
	case 1:
		switch {
		case c.Variant == 1:
			return "W"
		case c.Variant >= 8 && c.Variant <= 12, c.Variant == 18, c.Variant == 19, c.Variant == 24:
			return "root"
		case c.Variant == 21, c.Variant == 22, c.Variant == 23, c.Variant == 25:
			return "W"
		case c.Variant >= 30 && c.Variant <= 35:
			return "W"
		}
	case 2:
		if c.Variant == 6 || c.Variant == 10 || c.Variant == 11 {
			return "W"
		}
	}
	return ""
}

func c16ChildMain() {
	c16Setup()
	in := bufio.NewReaderSize(os.Stdin, 1<<20)
	out := bufio.NewWriter(os.Stdout)
	for {
		line, err := in.ReadBytes('\n')
		if len(line) > 0 {
			var c c16Case
			var res Result
			if jerr := json.Unmarshal(line, &c); jerr != nil {
				res = Result{Oracle: "child: cannot decode the case: " + jerr.Error()}
			} else {
				res = c16Run(&c)
			}
			b, _ := json.Marshal(res)
			out.Write(b)
			out.WriteByte('\n')
			out.Flush()
		}
		if err != nil {
			return
		}
	}
}

type c16Child struct {
	mu  sync.Mutex
	cmd *exec.Cmd
	in  io.WriteCloser
	out *bufio.Reader
	err error
}

var (
	c16ChildMu  sync.Mutex
	c16Children = map[string]*c16Child{}
)

func c16GetChild(cwd string) *c16Child {
	c16ChildMu.Lock()
	defer c16ChildMu.Unlock()
	if ch, ok := c16Children[cwd]; ok {
		return ch
	}
	ch := &c16Child{}
	c16Children[cwd] = ch
	dir := c16Work
	if cwd == "root" {
		dir = c16Root
	}
	exe, err := os.Executable()
	if err != nil {
		exe = os.Args[0]
	}
	if !filepath.IsAbs(exe) {
		if a, aerr := filepath.Abs(exe); aerr == nil {
			exe = a
		}
	}
	cmd := exec.Command(exe, "c16-child")
	cmd.Dir = dir
	cmd.Env = append(os.Environ(), c16ChildEnv+"="+c16Work, "PWD="+dir)
	cmd.Stderr = os.Stderr
	in, err := cmd.StdinPipe()
	if err != nil {
		ch.err = err
		return ch
	}
	outp, err := cmd.StdoutPipe()
	if err != nil {
		ch.err = err
		return ch
	}
	if err := cmd.Start(); err != nil {
		ch.err = err
		return ch
	}
	ch.cmd, ch.in, ch.out = cmd, in, bufio.NewReaderSize(outp, 1<<20)
	return ch
}

// c16ChildRun executes one case in the child whose working directory is cwd.
func c16ChildRun(cwd string, c *c16Case) Result {
	ch := c16GetChild(cwd)
	ch.mu.Lock()
	defer ch.mu.Unlock()
	if ch.err != nil {
		return Result{Oracle: "cannot run the working-directory child process: " + ch.err.Error()}
	}
	b, err := json.Marshal(c)
	if err == nil {
		_, err = ch.in.Write(append(b, '\n'))
	}
	var line []byte
	if err == nil {
		line, err = ch.out.ReadBytes('\n')
	}
	var res Result
	if err == nil {
		err = json.Unmarshal(line, &res)
	}
	if err != nil {
		ch.err = err
		return Result{Oracle: fmt.Sprintf("working-directory child process (%s) failed: %v", cwd, err)}
	}
	res.Tags = append(res.Tags, "cwd-"+cwd)
	return res
}

func c16StopChildren() {
	c16ChildMu.Lock()
	defer c16ChildMu.Unlock()
	for k, ch := range c16Children {
		if ch.cmd != nil {
			ch.in.Close()
			ch.cmd.Wait()
		}
		delete(c16Children, k)
	}
}
