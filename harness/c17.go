package main

// C17 — generated redirects stay on the same host.
//
// Real code: middleware.AddTrailingSlash / RemoveTrailingSlash and their ...WithConfig forms
// (e.Pre), Echo.Static / StaticFS, Group.Static / StaticFS and echo.StaticDirectoryHandler over a
// real directory tree (or the same tree as fstest.MapFS), mounted below literal prefixes, at
// the root and below path parameters, all through e.ServeHTTP.
// Model: lean/EchoModel/C17.lean (runReq: slashMw, staticHandler, preStatic).
// Oracle: c17Browser — a WHATWG-style reading of the Location value, written here in Go and
// independent of the model (the model prints its own verdict too, so both are compared).

import (
	"crypto/tls"
	"encoding/hex"
	"encoding/json"
	"fmt"
	"io/fs"
	"math/rand"
	"net/http"
	"net/http/httptest"
	"net/url"
	"os"
	"path/filepath"
	"strconv"
	"strings"
	"sync"
	"testing/fstest"
	"time"

	"github.com/labstack/echo/v4"
	"github.com/labstack/echo/v4/middleware"
)

// a2bstr is a Go byte string that survives JSON: every byte is written as the code point of
// the same value (Latin-1 view), so replay files stay readable ("/\t/example.com").
type a2bstr string

func (b a2bstr) MarshalJSON() ([]byte, error) {
	rs := make([]rune, 0, len(b))
	for i := 0; i < len(b); i++ {
		rs = append(rs, rune(b[i]))
	}
	return json.Marshal(string(rs))
}

func (b *a2bstr) UnmarshalJSON(d []byte) error {
	var s string
	if err := json.Unmarshal(d, &s); err != nil {
		return err
	}
	out := make([]byte, 0, len(s))
	for _, r := range s {
		if r > 255 {
			return fmt.Errorf("a2bstr: code point %d > 255", r)
		}
		out = append(out, byte(r))
	}
	*b = a2bstr(out)
	return nil
}

type c17Case struct {
	Comp    string `json:"comp"`             // add | remove | static | gstatic
	Method  string `json:"method,omitempty"` // request method ("" = GET)
	Code    int    `json:"code"`             // slash middlewares: RedirectCode (0 = forward instead of redirect)
	Path    a2bstr `json:"path"`             // request URL.Path (decoded)
	RawPath a2bstr `json:"raw_path"`         // request URL.RawPath ("" = none)
	Query   a2bstr `json:"query"`            // request URL.RawQuery
	Group   string `json:"group"`            // gstatic: group prefix (may contain path parameters: "/:site")
	Prefix  string `json:"prefix"`           // static/gstatic: pathPrefix argument of Static (may contain path parameters)
	Tree    int    `json:"tree"`             // static/gstatic: which directory tree
	// round 4: the other public entry points
	Ctor    string `json:"ctor,omitempty"`    // slash middleware: "" = ...WithConfig{RedirectCode: Code}, "plain" = AddTrailingSlash() / RemoveTrailingSlash()
	Skip    int    `json:"skip,omitempty"`    // slash middleware Skipper: 0 nil | 1 middleware.DefaultSkipper | 2 always skips | 3 skips paths containing "example"
	Variant string `json:"variant,omitempty"` // static route: "" Static(dir) | fs StaticFS(os.DirFS) | subfs StaticFS(MustSubFS) | mapfs StaticFS(fstest.MapFS) | handler GET(StaticDirectoryHandler(fs,false)) | raw Add(GET, StaticDirectoryHandler(fs,true)) | rel Static(dir relative to the working directory)
	// round 5: parts of the URL that can be present but empty / present without saying anything new
	ForceQuery bool   `json:"force_query,omitempty"` // the request target ends in a bare `?` (URL.ForceQuery; only meaningful with an empty query)
	Fragment   a2bstr `json:"fragment,omitempty"`    // URL.Fragment (a server never parses one out of a request target; an earlier middleware may have set it)
	Host       string `json:"host,omitempty"`        // absolute-form request target: URL.Scheme = "http", URL.Host = this
	// round 7: the request's protocol version and Host header; further requests through the same application
	Proto   string    `json:"proto,omitempty"`    // "" HTTP/1.1 | 1.0 | 0.9 | 2.0
	NoHost  bool      `json:"no_host,omitempty"`  // no Host header
	ReqHost string    `json:"req_host,omitempty"` // Host header ("" = example.com)
	TLS     bool      `json:"tls,omitempty"`      // Request.TLS != nil
	More    []c17Step `json:"more,omitempty"`     // requests served after the first one, through the same Echo and middleware instances
	Pre     string    `json:"pre,omitempty"`      // static route: "" | add | remove — that slash middleware (Ctor, Skip, Code) under e.Pre in front of the route
}

// ---------- the directory trees served by the static cases ----------

type c17Tree struct {
	dirs  []string // "." = root
	files []string
}

var c17Trees = []c17Tree{
	{
		dirs:  []string{".", "example.com", "a", "a/b", "\t", "\t/evil.com", "\\evil.com", "s", "s/example.com"},
		files: []string{"index.html", "a/index.html", "a/f.txt", "example.com/x.txt"},
	},
	{
		dirs:  []string{".", "evil.com", "evil.com/sub", "g", "g/s"},
		files: []string{"evil.com/index.html", "f.txt"},
	},
}

func c17VerifDir() string {
	if d := os.Getenv("VERIF_DIR"); d != "" {
		return d
	}
	for i, a := range os.Args {
		if (a == "-verif" || a == "--verif") && i+1 < len(os.Args) {
			return os.Args[i+1]
		}
		if strings.HasPrefix(a, "-verif=") {
			return strings.TrimPrefix(a, "-verif=")
		}
	}
	return "/verif"
}

var (
	c17Once sync.Once
	c17Root string
	c17Err  error
)

// c17Roots creates the trees once per process under <verif>/.work and returns the directory
// that contains them (t0, t1, …).  Removed again by the Extra hook at the end of a run.
func c17Roots() (string, error) {
	c17Once.Do(func() {
		work := filepath.Join(c17VerifDir(), ".work")
		if err := os.MkdirAll(work, 0o755); err != nil {
			c17Err = err
			return
		}
		// left-overs of replays / interrupted runs
		if old, _ := filepath.Glob(filepath.Join(work, "c17-tree-*")); old != nil {
			for _, d := range old {
				if fi, err := os.Stat(d); err == nil && time.Since(fi.ModTime()) > time.Hour {
					os.RemoveAll(d)
				}
			}
		}
		root, err := os.MkdirTemp(work, "c17-tree-")
		if err != nil {
			c17Err = err
			return
		}
		for i, t := range c17Trees {
			base := filepath.Join(root, fmt.Sprintf("t%d", i))
			for _, d := range t.dirs {
				if err := os.MkdirAll(base+"/"+d, 0o755); err != nil {
					c17Err = err
					return
				}
			}
			for _, f := range t.files {
				if err := os.WriteFile(base+"/"+f, []byte("marker "+f+"\n"), 0o644); err != nil {
					c17Err = err
					return
				}
			}
		}
		c17Root = root
	})
	return c17Root, c17Err
}

func c17Cleanup() {
	if c17Root != "" {
		os.RemoveAll(c17Root)
	}
}

// c17MapFS is the same tree as an in-memory fs.FS (for StaticFS)
func c17MapFS(ti int) fs.FS {
	t := c17Trees[ti]
	m := fstest.MapFS{}
	for _, d := range t.dirs {
		if d != "." {
			m[d] = &fstest.MapFile{Mode: fs.ModeDir | 0o755}
		}
	}
	for _, f := range t.files {
		m[f] = &fstest.MapFile{Data: []byte("marker " + f + "\n"), Mode: 0o644}
	}
	return m
}

// c17Skips: what the Skipper of the case answers for a request path
func c17Skips(skip int, path string) bool {
	switch skip {
	case 2:
		return true
	case 3:
		return strings.Contains(path, "example")
	}
	return false
}

// c17Slash builds the slash middleware of a case and the tokens that describe it to the model
// (`A|D plain skip code`); effCode is the RedirectCode the middleware really works with.
func c17Slash(kind string, c *c17Case, path string) (mw echo.MiddlewareFunc, toks string, effCode int, skipped bool) {
	k := "A"
	if kind == "remove" {
		k = "D"
	}
	if c.Ctor == "plain" {
		mw = middleware.AddTrailingSlash()
		if kind == "remove" {
			mw = middleware.RemoveTrailingSlash()
		}
		return mw, wJoin(k, wBool(true), wBool(false), wInt(0)), 0, false
	}
	cfg := middleware.TrailingSlashConfig{RedirectCode: c.Code}
	switch c.Skip {
	case 1:
		cfg.Skipper = middleware.DefaultSkipper
	case 2, 3:
		sk := c.Skip
		cfg.Skipper = func(ctx echo.Context) bool { return c17Skips(sk, ctx.Request().URL.Path) }
	}
	mw = middleware.AddTrailingSlashWithConfig(cfg)
	if kind == "remove" {
		mw = middleware.RemoveTrailingSlashWithConfig(cfg)
	}
	skipped = c17Skips(c.Skip, path)
	return mw, wJoin(k, wBool(false), wBool(skipped), wInt(c.Code)), c.Code, skipped
}

// c17SlashBuild: c17Slash with the constructor's panic caught.  A constructor that refuses a RedirectCode which is
// neither 0 (forward) nor 300..308 builds no middleware: that configuration never produced a redirect anyway
// (Context.Redirect rejects the code: 500 for every request that needs a change), and the property speaks about the
// redirects that are produced.  refused: the case has nothing to observe.  A panic for a valid code is a failure.
func c17SlashBuild(kind string, c *c17Case) (mw echo.MiddlewareFunc, refused bool, failure string) {
	defer func() {
		if p := recover(); p != nil {
			mw = nil
			if c.Ctor != "plain" && c.Code != 0 && (c.Code < 300 || c.Code > 308) {
				refused = true
			} else {
				failure = fmt.Sprintf("panic in the %s-trailing-slash constructor for RedirectCode %d: %v", kind, c.Code, p)
			}
		}
	}()
	mw, _, _, _ = c17Slash(kind, c, "")
	return mw, false, ""
}

// ---------- the model-free oracle: how a browser reads a Location value ----------

// c17Browser applies the preprocessing of the WHATWG URL parser (strip leading and trailing
// C0 control or space, remove every ASCII tab or newline) and classifies the reference
// against an http(s) base URL.
//
//	scheme:    the value starts with a scheme ("alpha *(alpha / digit / + / - / .) :")
//	authority: no scheme and the first two characters are both `/` or `\` (relative slash
//	           state -> authority state: the host comes from the value)
//	pathAbs:   no scheme, first character `/`, not an authority
func c17Browser(loc string) (view string, scheme, authority, pathAbs bool) {
	b := []byte(loc)
	for len(b) > 0 && b[0] <= 0x20 {
		b = b[1:]
	}
	for len(b) > 0 && b[len(b)-1] <= 0x20 {
		b = b[:len(b)-1]
	}
	v := make([]byte, 0, len(b))
	for _, c := range b {
		if c == '\t' || c == '\n' || c == '\r' {
			continue
		}
		v = append(v, c)
	}
	alpha := func(c byte) bool { return (c >= 'a' && c <= 'z') || (c >= 'A' && c <= 'Z') }
	if len(v) > 0 && alpha(v[0]) {
		i := 1
		for i < len(v) && (alpha(v[i]) || (v[i] >= '0' && v[i] <= '9') || v[i] == '+' || v[i] == '-' || v[i] == '.') {
			i++
		}
		if i < len(v) && v[i] == ':' {
			scheme = true
		}
	}
	sl := func(c byte) bool { return c == '/' || c == '\\' }
	if !scheme && len(v) >= 2 && sl(v[0]) && sl(v[1]) {
		authority = true
	}
	pathAbs = !scheme && !authority && len(v) > 0 && v[0] == '/'
	return string(v), scheme, authority, pathAbs
}

// c17Ordinary: a path for which the second clause of the property fixes the exact target: it starts with `/`
// followed by a character that is neither `/` nor `\`, and it contains no control character anywhere (C0 controls - TAB,
// CR, LF among them - and DEL).  The first clause of the property says how a browser reads tab / CR / LF / leading control
// characters: a path that carries such bytes belongs to the hostile alphabet, not to the "ordinary paths", and how they
// are represented in a Location value (kept, dropped, escaped) is left to clause 1, which judges every Location.
func c17Ordinary(p string) bool {
	if len(p) < 2 || p[0] != '/' || p[1] == '/' || p[1] == '\\' {
		return false
	}
	for i := 0; i < len(p); i++ {
		if p[i] < 0x20 || p[i] == 0x7f {
			return false
		}
	}
	return true
}

// ---------- Run ----------

const c17ReqURI = "/orig-request-uri"

// c17Step: one request.  The first request of a case is described by the case's own fields,
// further requests through the SAME Echo (same middleware instances) by `More`.
type c17Step struct {
	Method     string `json:"method,omitempty"`
	Path       a2bstr `json:"path"`
	RawPath    a2bstr `json:"raw_path,omitempty"`
	Query      a2bstr `json:"query,omitempty"`
	ForceQuery bool   `json:"force_query,omitempty"`
	Fragment   a2bstr `json:"fragment,omitempty"`
	Host       string `json:"host,omitempty"`
	Proto      string `json:"proto,omitempty"`    // "" HTTP/1.1 | 1.0 | 0.9 | 2.0 (Request.Proto / ProtoMajor / ProtoMinor)
	NoHost     bool   `json:"no_host,omitempty"`  // no Host header (legal in HTTP/1.0): Request.Host == ""
	ReqHost    string `json:"req_host,omitempty"` // Host header ("" = example.com)
	TLS        bool   `json:"tls,omitempty"`      // the request came over TLS (Request.TLS != nil)
}

func (c *c17Case) step0() c17Step {
	return c17Step{Method: c.Method, Path: c.Path, RawPath: c.RawPath, Query: c.Query, ForceQuery: c.ForceQuery,
		Fragment: c.Fragment, Host: c.Host, Proto: c.Proto, NoHost: c.NoHost, ReqHost: c.ReqHost, TLS: c.TLS}
}

func (c *c17Case) setStep0(st c17Step) {
	c.Method, c.Path, c.RawPath, c.Query, c.ForceQuery = st.Method, st.Path, st.RawPath, st.Query, st.ForceQuery
	c.Fragment, c.Host, c.Proto, c.NoHost, c.ReqHost, c.TLS = st.Fragment, st.Host, st.Proto, st.NoHost, st.ReqHost, st.TLS
}

func c17Proto(p string) (string, int, int) {
	switch p {
	case "1.0":
		return "HTTP/1.0", 1, 0
	case "0.9":
		return "HTTP/0.9", 0, 9
	case "2.0":
		return "HTTP/2.0", 2, 0
	}
	return "HTTP/1.1", 1, 1
}

type c17StepResult struct {
	ops, obs, oracle string
	tags             []string
	nontrivial       bool
}

func c17Run(ci any) (res Result) {
	c := ci.(*c17Case)
	defer func() {
		if p := recover(); p != nil {
			res.Obs = "panic"
			res.Oracle = fmt.Sprintf("panic: %v", p)
		}
	}()
	e := echo.New()
	e.HideBanner = true
	caseTags := []string{"comp:" + c.Comp}

	// ---- the application: built once, all requests of the case go through it
	// (what the hooks inside the application record for the request being served)
	nextRan, nextPath, nextURI := false, "", ""
	routed, param := false, ""
	var slashToks func(path string) (string, int, bool) // slash middleware of the case: model tokens, effective code, skipped
	route, disable, ti := "", false, 0
	switch c.Comp {
	case "add", "remove":
		mw, refused, failure := c17SlashBuild(c.Comp, c)
		if refused {
			return Result{Tags: append(caseTags, "ctor:refuses-invalid-redirect-code(no redirects to judge)")}
		}
		if failure != "" {
			return Result{Obs: "panic", Oracle: failure, Tags: caseTags}
		}
		slashToks = func(path string) (string, int, bool) {
			_, toks, ec, sk := c17Slash(c.Comp, c, path)
			return toks, ec, sk
		}
		e.Pre(mw, func(next echo.HandlerFunc) echo.HandlerFunc {
			return func(ctx echo.Context) error { // stands for "router + handler"
				nextRan, nextPath, nextURI = true, ctx.Request().URL.Path, ctx.Request().RequestURI
				return ctx.NoContent(http.StatusOK)
			}
		})
		if c.Ctor == "plain" {
			caseTags = append(caseTags, "ctor:plain("+c.Comp+")")
		}
		if c.Skip != 0 && c.Ctor != "plain" {
			caseTags = append(caseTags, fmt.Sprintf("skipper:%d", c.Skip))
		}
	case "static", "gstatic":
		root, err := c17Roots()
		if err != nil {
			return Result{Oracle: "harness: cannot create the directory tree: " + err.Error()}
		}
		ti = c.Tree % len(c17Trees)
		if ti < 0 {
			ti = 0
		}
		dir := filepath.Join(root, fmt.Sprintf("t%d", ti))
		route = c.Prefix + "*"
		if c.Comp == "gstatic" {
			route = c.Group + route
		}
		if !strings.HasPrefix(route, "/") { // the router registers "*" as "/*"
			route = "/" + route
		}
		if c.Pre == "add" || c.Pre == "remove" {
			mw, refused, failure := c17SlashBuild(c.Pre, c)
			if refused {
				return Result{Tags: append(caseTags, "ctor:refuses-invalid-redirect-code(no redirects to judge)")}
			}
			if failure != "" {
				return Result{Obs: "panic", Oracle: failure, Tags: caseTags}
			}
			slashToks = func(path string) (string, int, bool) {
				_, toks, ec, sk := c17Slash(c.Pre, c, path)
				return toks, ec, sk
			}
			e.Pre(mw)
			caseTags = append(caseTags, "pre:"+c.Pre)
		}
		e.Use(func(next echo.HandlerFunc) echo.HandlerFunc {
			return func(ctx echo.Context) error {
				// (for a method the route is not registered for, Path() is the request path)
				if ctx.Path() == route && ctx.Request().Method == http.MethodGet {
					routed, param = true, ctx.Param("*")
				}
				return next(ctx)
			}
		})
		var g *echo.Group
		if c.Comp == "gstatic" {
			g = e.Group(c.Group)
		}
		regFS := func(fsys fs.FS) {
			if g != nil {
				g.StaticFS(c.Prefix, fsys)
			} else {
				e.StaticFS(c.Prefix, fsys)
			}
		}
		switch c.Variant {
		case "":
			if g != nil {
				g.Static(c.Prefix, dir)
			} else {
				e.Static(c.Prefix, dir)
			}
		case "rel":
			// a root relative to the working directory (what `e.Static("/", "public")` is)
			rel := dir
			if wd, err := os.Getwd(); err == nil {
				if r, err := filepath.Rel(wd, dir); err == nil {
					rel = r
				}
			}
			if g != nil {
				g.Static(c.Prefix, rel)
			} else {
				e.Static(c.Prefix, rel)
			}
		case "fs":
			regFS(os.DirFS(dir))
		case "subfs":
			regFS(echo.MustSubFS(os.DirFS(root), fmt.Sprintf("t%d", ti)))
		case "mapfs":
			regFS(c17MapFS(ti))
		case "handler", "raw":
			disable = c.Variant == "raw"
			h := echo.StaticDirectoryHandler(os.DirFS(dir), disable)
			switch {
			case g != nil && disable:
				g.Add(http.MethodGet, c.Prefix+"*", h)
			case g != nil:
				g.GET(c.Prefix+"*", h)
			case disable:
				e.Add(http.MethodGet, c.Prefix+"*", h)
			default:
				e.GET(c.Prefix+"*", h)
			}
		default:
			return Result{Oracle: "harness: unknown variant " + c.Variant}
		}
		caseTags = append(caseTags, "variant:"+c.Variant)
		if strings.Contains(route, ":") {
			caseTags = append(caseTags, "mount:below-path-parameter")
		} else if route != "/*" {
			caseTags = append(caseTags, "mount:below-literal-prefix")
		} else {
			caseTags = append(caseTags, "mount:root")
		}
	default:
		return Result{Oracle: "harness: unknown component " + c.Comp}
	}

	// ---- one request through the application
	serve := func(st c17Step) (sr c17StepResult) {
		defer func() {
			if p := recover(); p != nil {
				sr.obs = "panic"
				sr.oracle = fmt.Sprintf("panic: %v", p)
			}
		}()
		path, raw, qs := string(st.Path), string(st.RawPath), string(st.Query)
		method := st.Method
		if method == "" {
			method = http.MethodGet
		}
		req := httptest.NewRequest(method, "/", nil)
		req.URL.Path, req.URL.RawPath, req.URL.RawQuery = path, raw, qs
		req.URL.ForceQuery = st.ForceQuery
		req.URL.Fragment = string(st.Fragment)
		if st.Host != "" {
			req.URL.Scheme, req.URL.Host = "http", st.Host
		}
		req.Proto, req.ProtoMajor, req.ProtoMinor = c17Proto(st.Proto)
		switch {
		case st.NoHost:
			req.Host = ""
		case st.ReqHost != "":
			req.Host = st.ReqHost
		}
		if st.TLS {
			req.TLS = &tls.ConnectionState{}
		}
		urlToks := wJoin(wStr(path), wStr(raw), wStr(qs), wBool(st.ForceQuery), wStr(string(st.Fragment)), wStr(st.Host),
			wInt(req.ProtoMajor), wInt(req.ProtoMinor), wStr(req.Host), wBool(st.TLS))
		req.RequestURI = c17ReqURI
		rec := httptest.NewRecorder()
		nextRan, nextPath, nextURI = false, "", ""
		routed, param = false, ""
		tags := []string{"method:" + method}
		var ops string
		effCode, skipped := c.Code, false

		e.ServeHTTP(rec, req)

		switch c.Comp {
		case "add", "remove":
			toks, ec, sk := slashToks(path)
			effCode, skipped = ec, sk
			ops = wJoin("M", toks, urlToks, wStr(c17ReqURI))
			if effCode == 0 {
				tags = append(tags, "forward-mode")
			}
			if skipped {
				tags = append(tags, "skipped")
			}
		case "static", "gstatic":
			t := c17Trees[ti]
			switch {
			case slashToks != nil && method == http.MethodGet:
				toks, _, _ := slashToks(path)
				ops = wJoin("P", toks, urlToks, wStr(c17ReqURI), wBool(disable), wStrs(t.dirs), wStrs(t.files), wBool(routed), wStr(param))
			case slashToks != nil:
				tags = append(tags, "static:pre-non-GET(oracle only)")
			case routed:
				ops = wJoin("S", wBool(disable), wStrs(t.dirs), wStrs(t.files), wStr(param), wStr(path))
			default:
				tags = append(tags, "static:not-routed")
			}
		}

		// ---- observation in the model's format
		status := rec.Code
		locs := rec.Header()[echo.HeaderLocation]
		loc := ""
		if len(locs) > 0 {
			loc = locs[0]
		}
		_, scheme, authority, pathAbs := c17Browser(loc)
		var obs string
		switch {
		case status >= 300 && status < 400:
			obs = wJoin("R", wInt(status), wStr(loc), wBool(pathAbs), wBool(!scheme && !authority))
			tags = append(tags, "redirect", "redirect:"+c.Comp)
			if (c.Comp == "static" || c.Comp == "gstatic") && strings.Contains(c.Group+c.Prefix, ":") {
				tags = append(tags, "redirect:mount-below-path-parameter")
			}
			if c.Pre != "" {
				tags = append(tags, "redirect:with-pre-middleware")
			}
			if method != http.MethodGet {
				tags = append(tags, "redirect:non-GET")
			}
		case nextRan && status == http.StatusOK:
			obs = wJoin("N", wStr(nextPath), wStr(nextURI))
			tags = append(tags, "next")
		case status == http.StatusOK:
			obs = "F"
			tags = append(tags, "file-served")
		case status == http.StatusNotFound:
			obs = "404"
			tags = append(tags, "404")
		case status == http.StatusInternalServerError:
			obs = "E"
			tags = append(tags, "error-500")
		default:
			obs = fmt.Sprintf("X%d", status)
		}

		// ---- model-free oracle: the property itself
		oracle := ""
		fail := func(f string, a ...any) {
			if oracle == "" {
				oracle = fmt.Sprintf(f, a...)
			}
		}
		if len(locs) > 1 {
			fail("%d Location headers", len(locs))
		}
		isRedirect := status >= 300 && status < 400
		if isRedirect || len(locs) > 0 {
			view, _, _, _ := c17Browser(loc)
			switch {
			case scheme:
				fail("Location %q is read by a browser as %q: it has a scheme", loc, view)
			case authority:
				fail("Location %q is read by a browser as %q: it starts an authority (another host)", loc, view)
			case strings.HasPrefix(path, "/") && !pathAbs:
				fail("Location %q is read by a browser as %q: not a path-absolute reference", loc, view)
			}
		}
		if c.Comp == "add" || c.Comp == "remove" {
			// second clause: ordinary paths get exactly path±"/" with the query preserved
			q := ""
			if qs != "" {
				q = "?" + qs
			}
			validCode := effCode >= 300 && effCode <= 308
			bare := st.ForceQuery && qs == ""
			want, change := "", false
			if c.Comp == "add" && c17Ordinary(path) && !strings.HasSuffix(path, "/") {
				want, change = path+"/", true
			}
			if c.Comp == "remove" && strings.HasSuffix(path, "/") && c17Ordinary(strings.TrimSuffix(path, "/")) {
				want, change = strings.TrimSuffix(path, "/"), true
			}
			if skipped {
				// the Skipper took the request out of the middleware's hands: no target to speak of
				// (what must happen — nothing — is part of the comparison with the model)
			} else if change {
				tags = append(tags, "ordinary-change")
				switch {
				case validCode:
					// (the property fixes the target, not which 3xx code carries it; the configured
					// code is part of the comparison with the model)
					// (an empty query that was present - a bare `?` - may be kept or dropped: both
					// preserve the query string; which one is part of the comparison with the model)
					if !isRedirect || (loc != want+q && !(bare && loc == want+"?")) {
						fail("ordinary path %q: expected a redirect (%d) with Location %q, got status %d Location %q", path, effCode, want+q, status, loc)
					}
				case effCode == 0:
					// (effCode, not c.Code: the constructors without config forward whatever Code the case carries)
					if !nextRan || nextPath != want || (nextURI != want+q && !(bare && nextURI == want+"?")) {
						fail("ordinary path %q (forward mode): expected the handler to see path %q uri %q, got ran=%v %q %q", path, want, want+q, nextRan, nextPath, nextURI)
					}
				}
			} else if c17Ordinary(path) || path == "/" {
				tags = append(tags, "ordinary-keep")
				if isRedirect || !nextRan || nextPath != path || nextURI != c17ReqURI {
					fail("ordinary path %q needs no change but status=%d next=%v path=%q uri=%q", path, status, nextRan, nextPath, nextURI)
				}
			}
		}

		// ---- evidence tags
		lead := 0
		for lead < len(path) && (path[lead] == '/' || path[lead] == '\\' || path[lead] <= 0x20) {
			lead++
		}
		nontrivial := false
		if isRedirect {
			run := path[:lead]
			if strings.ContainsAny(run, "\t\r\n") {
				tags = append(tags, "lead:tab-cr-lf")
			}
			if strings.Contains(run, "\\") {
				tags = append(tags, "lead:backslash")
			}
			if strings.ContainsAny(strings.ToLower(raw), "%") && (strings.Contains(strings.ToLower(raw), "%2f") || strings.Contains(strings.ToLower(raw), "%5c")) {
				tags = append(tags, "lead:encoded-slash")
			}
			if qs != "" {
				tags = append(tags, "with-query")
			}
			naive := path
			if c.Comp == "remove" {
				naive = strings.TrimSuffix(path, "/")
			} else {
				naive += "/"
			}
			if qs != "" && (c.Comp == "add" || c.Comp == "remove") {
				naive += "?" + qs
			}
			if loc != naive {
				tags = append(tags, "sanitiser-rewrote")
			}
			_, _, nauth, _ := c17Browser(naive)
			if nauth {
				tags = append(tags, "naive-target-would-leave-host")
				nontrivial = true
			}
		}
		if !strings.HasPrefix(path, "/") {
			tags = append(tags, "path-not-rooted")
		}
		if st.ForceQuery && qs == "" {
			tags = append(tags, "url:bare-question-mark")
			if isRedirect {
				tags = append(tags, "redirect:bare-question-mark")
			}
		}
		if st.Fragment != "" {
			tags = append(tags, "url:fragment")
		}
		if st.Host != "" {
			tags = append(tags, "url:absolute-form(host)")
		}
		if raw != "" && raw == path {
			tags = append(tags, "url:RawPath==Path")
		}
		if st.Proto != "" {
			tags = append(tags, "proto:HTTP/"+st.Proto)
			if isRedirect {
				tags = append(tags, "redirect:proto-HTTP/"+st.Proto)
			}
		}
		if st.NoHost {
			tags = append(tags, "request:no-Host-header")
		}
		if st.TLS {
			tags = append(tags, "request:TLS")
		}
		if qs != "" {
			if _, err := url.ParseQuery(qs); err != nil {
				tags = append(tags, "query:does-not-parse")
				if isRedirect {
					tags = append(tags, "redirect:query-does-not-parse")
				}
			}
		}
		return c17StepResult{ops, obs, oracle, tags, nontrivial}
	}

	steps := append([]c17Step{c.step0()}, c.More...)
	var lines, obss []string
	tags := caseTags
	oracle, nontrivial := "", false
	seen := map[string]bool{} // path -> a redirect was produced for it earlier in this case
	for i, st := range steps {
		sr := serve(st)
		if sr.ops != "" {
			lines = append(lines, sr.ops)
			obss = append(obss, sr.obs)
		}
		tags = append(tags, sr.tags...)
		nontrivial = nontrivial || sr.nontrivial
		if sr.oracle != "" && oracle == "" {
			oracle = sr.oracle
			if len(steps) > 1 {
				oracle = fmt.Sprintf("request %d of %d through one instance: %s", i+1, len(steps), sr.oracle)
			}
		}
		if strings.HasPrefix(sr.obs, "R ") {
			if seen[string(st.Path)] {
				tags = append(tags, "sequence:redirect-for-a-path-redirected-before")
			}
			seen[string(st.Path)] = true
		}
	}
	if len(steps) > 1 {
		tags = append(tags, "sequence")
	}
	ops, obs := "", strings.Join(append([]string{wInt(len(obss))}, obss...), " ")
	if len(lines) > 0 {
		ops = strings.Join(append([]string{"Q", wInt(len(lines))}, lines...), " ")
	}
	return Result{Ops: ops, Obs: obs, Oracle: oracle, Tags: tags, Nontrivial: nontrivial}
}

// ---------- Gen ----------

type c17Tok struct{ dec, enc string }

func c17Pick(r *rand.Rand, l []c17Tok) c17Tok { return l[r.Intn(len(l))] }

var (
	c17Slashes = []c17Tok{{"/", "/"}, {"/", "/"}, {"/", "%2f"}, {"/", "%2F"}, {"\\", "\\"}, {"\\", "%5c"}, {"\\", "%5C"}}
	c17Ignored = []c17Tok{{"\t", "%09"}, {"\t", "\t"}, {"\n", "%0a"}, {"\n", "%0A"}, {"\r", "%0d"}, {"\r", "\r"}, {"\n", "\n"}, {"\r\n", "%0d%0a"}}
	c17Ctl     = []c17Tok{{"\x00", "%00"}, {"\x01", "%01"}, {"\x0b", "%0b"}, {"\x0c", "%0c"}, {"\x1f", "%1f"}, {" ", "%20"}, {" ", " "}, {"\x7f", "%7f"}, {"\xa0", "%a0"}, {"\xc2\xa0", "%c2%a0"}, {"\x85", "%85"}}
	c17Hosts   = []c17Tok{{"example.com", "example.com"}, {"evil.com", "evil.com"}, {"evil.com:80", "evil.com:80"}, {"user@evil.com", "user@evil.com"}, {"[::1]", "[::1]"},
		{"localhost", "localhost"}, {"a", "a"}, {"a/b", "a/b"}, {"a/f.txt", "a/f.txt"}, {"s", "s"}, {"g/s", "g/s"}, {"example.com/x.txt", "example.com/x.txt"}, {"evil.com/sub", "evil.com/sub"},
		{"http:", "http:"}, {"javascript:alert(1)", "javascript:alert(1)"}, {"e", "e"}, {"", ""},
		// names with a meaning of their own for a file server: the index page (the file a directory request is answered
		// with, and the name http.FileServer redirects away from) and plain files of the trees
		{"index.html", "index.html"}, {"a/index.html", "a/index.html"}, {"evil.com/index.html", "evil.com/index.html"}, {"f.txt", "f.txt"},
		{"index.html", "index%2Ehtml"}, {"Index.html", "Index.html"}}
	c17Tails = []c17Tok{{"", ""}, {"", ""}, {"/", "/"}, {"/..", "/.."}, {"/..", "/%2e%2e"}, {"/..", "/%2E."}, {"/.", "/."}, {"/x", "/x"}, {"//", "//"}, {"/", "%2f"}, {"?x", "%3fx"}, {"#f", "%23f"}, {"\t", "%09"}, {"%", "%25"},
		{"/index.html", "/index.html"}, {"/index.html", "/index.htm%6c"}, {"index.html", "index.html"}, {"/index.html/", "/index.html/"}, {"/f.txt", "/f.txt"}}
	c17Queries = []string{"", "", "", "a=1", "next=//evil.com", "/\t/evil.com", "x=%2f%2f&y=2", "//evil.com", "?", "\\evil.com",
		// queries url.ParseQuery rejects or reads in surprising ways: they are to be copied, not parsed
		"discount=100%", "%", "%zz", "a=%2", "a=1;b=2", ";", "=", "&&", "a=1&&b", "a=b=c", "q=first", "q=second", "+", "a[]=1&a[]=2", "\x00", "k=" + strings.Repeat("v", 300)}
	c17Methods = []string{"HEAD", "POST", "POST", "PUT", "PATCH", "DELETE", "OPTIONS", "PROPFIND", "X-CUSTOM", "get"}
	c17Codes   = []int{301, 301, 301, 302, 302, 307, 308, 308, 303, 300, 304, 305, 306, 0, 0, 0, 299, 309, 200, 1}
)

// c17ParamSegs: what a client puts where the mount point has a path parameter (`/:site/*`): the
// router matches on the escaped path, so an escaped slash or backslash stays inside the segment
var c17ParamSegs = []c17Tok{{"acme", "acme"}, {"acme", "acme"}, {"example.com", "example.com"},
	{"\\example.com", "%5Cexample.com"}, {"\\example.com", "%5cexample.com"}, {"\\example.com", "\\example.com"},
	{"/example.com", "%2Fexample.com"}, {"/example.com", "%2fexample.com"}, {"\t\\example.com", "%09%5Cexample.com"},
	{"\\\t\\example.com", "%5C%09%5Cexample.com"}, {"\n/evil.com", "%0A%2Fevil.com"}, {"\\", "%5C"}, {"/", "%2F"},
	{"\t", "%09"}, {"\r\n", "%0d%0a"}, {" ", "%20"}, {"", ""}, {"\\evil.com:80", "%5Cevil.com:80"}, {"a", "a"}, {"s", "s"}}

// c17Instantiate replaces every `:name` segment of a mount pattern (without the leading "/")
func c17Instantiate(r *rand.Rand, pattern string) (dec, enc string) {
	if pattern == "" {
		return "", ""
	}
	segs := strings.Split(pattern, "/")
	ds, es := make([]string, len(segs)), make([]string, len(segs))
	for i, sg := range segs {
		if strings.HasPrefix(sg, ":") {
			t := c17Pick(r, c17ParamSegs)
			ds[i], es[i] = t.dec, t.enc
		} else {
			ds[i], es[i] = sg, sg
		}
	}
	return strings.Join(ds, "/"), strings.Join(es, "/")
}

func c17GenPath(r *rand.Rand, base, baseEnc string, wantDir bool) (dec, enc string) {
	var d, en strings.Builder
	add := func(t c17Tok) { d.WriteString(t.dec); en.WriteString(t.enc) }
	// first character
	// (a server only ever sees "", "*" or a path starting with "/"; a leading `\` is what
	// sanitizeURI itself also provides for)
	if r.Intn(40) == 0 {
		add(c17Tok{"\\", "\\"})
	} else {
		add(c17Tok{"/", "/"})
	}
	if base != "" || baseEnc != "" {
		add(c17Tok{base, baseEnc})
	}
	// the leading mix
	n := r.Intn(5)
	if r.Intn(6) == 0 {
		n = 0
	}
	for i := 0; i < n; i++ {
		switch k := r.Intn(10); {
		case k < 4:
			add(c17Pick(r, c17Slashes))
		case k < 8:
			add(c17Pick(r, c17Ignored))
		default:
			add(c17Pick(r, c17Ctl))
		}
	}
	add(c17Pick(r, c17Hosts))
	// tail
	if wantDir && r.Intn(4) != 0 {
		// climb back so that the cleaned name is a directory of the tree
		// (exactly as many `..` as there are non-empty elements after the route prefix, mostly)
		sub := strings.TrimPrefix(strings.TrimPrefix(d.String(), "/"), base)
		segs := 0
		for _, el := range strings.Split(sub, "/") {
			if el != "" && el != "." {
				segs++
			}
		}
		k := segs
		if r.Intn(4) == 0 {
			k = r.Intn(segs + 2)
		}
		for i := 0; i < k; i++ {
			if r.Intn(2) == 0 {
				add(c17Tok{"/..", "/%2e%2e"})
			} else {
				add(c17Tok{"/..", "/.."})
			}
		}
		if r.Intn(3) == 0 {
			add(c17Pick(r, c17Hosts))
		}
	}
	for i, k := 0, r.Intn(3); i < k; i++ {
		add(c17Pick(r, c17Tails))
	}
	return d.String(), en.String()
}

// c17GenFilePath: a request that names a regular FILE of the tree - mostly one of its index pages, the one file
// name the static handler and every file server give a meaning of their own - through a prefix that looks like
// another host and is cancelled again by dot segments: `//example.com/%2e%2e/index.html`, `/\\evil.com/a/../../a/index.html`.
// The unchanged handler serves the file; anything that answers such a request with a redirect built from the
// request path has to get that target past the sanitiser.
func c17GenFilePath(r *rand.Rand, t c17Tree, base, baseEnc string) (dec, enc string) {
	var d, en strings.Builder
	add := func(t c17Tok) { d.WriteString(t.dec); en.WriteString(t.enc) }
	add(c17Tok{"/", "/"})
	add(c17Tok{base, baseEnc})
	mark := d.Len()
	for i, n := 0, r.Intn(4); i < n; i++ {
		if r.Intn(3) != 0 {
			add(c17Pick(r, c17Slashes))
		} else {
			add(c17Pick(r, c17Ignored))
		}
	}
	if r.Intn(5) != 0 {
		add(c17Pick(r, c17Hosts))
	}
	// climb back to the mount point (mostly exactly; sometimes one short or one too many)
	segs := 0
	for _, el := range strings.Split(d.String()[mark:], "/") {
		if el != "" && el != "." {
			segs++
		}
	}
	if k := r.Intn(8); k == 0 && segs > 0 {
		segs--
	} else if k == 1 {
		segs++
	}
	for i := 0; i < segs; i++ {
		switch r.Intn(4) {
		case 0:
			add(c17Tok{"/..", "/%2e%2e"})
		case 1:
			add(c17Tok{"/..", "/.%2E"})
		default:
			add(c17Tok{"/..", "/.."})
		}
	}
	f := t.files[r.Intn(len(t.files))]
	if r.Intn(3) != 0 { // mostly an index page
		var idx []string
		for _, x := range t.files {
			if x == "index.html" || strings.HasSuffix(x, "/index.html") {
				idx = append(idx, x)
			}
		}
		if len(idx) > 0 {
			f = idx[r.Intn(len(idx))]
		}
	}
	if d.Len() > 0 && !strings.HasSuffix(d.String(), "/") || r.Intn(6) == 0 {
		add(c17Pick(r, c17Slashes[:4]))
	}
	add(c17Tok{f, f})
	if r.Intn(8) == 0 {
		add(c17Tok{"/", "/"})
	}
	return d.String(), en.String()
}

func c17GenCase(r *rand.Rand) *c17Case {
	c := &c17Case{}
	switch r.Intn(4) {
	case 0:
		c.Comp = "add"
	case 1:
		c.Comp = "remove"
	case 2:
		c.Comp = "static"
	default:
		c.Comp = "gstatic"
	}
	// the property holds for every method (the model does not look at it): half of the
	// requests are GET, the rest spread over the other methods, a body-carrying one included
	// for every redirect code; the static routes only answer GET (405 otherwise)
	if k := r.Intn(10); (c.Comp == "add" || c.Comp == "remove") && k < 5 || k < 2 {
		c.Method = c17Methods[r.Intn(len(c17Methods))]
	}
	base, baseEnc := "", ""
	wantDir := false
	slashCfg := func() {
		c.Code = c17Codes[r.Intn(len(c17Codes))]
		// the convenience constructors and a Skipper, one case in five
		switch r.Intn(10) {
		case 0:
			c.Ctor = "plain"
		case 1:
			c.Skip = 1 + r.Intn(3)
		}
	}
	variant := func() {
		if r.Intn(2) == 0 {
			c.Variant = []string{"fs", "subfs", "mapfs", "handler", "raw", "rel"}[r.Intn(6)]
		}
		if r.Intn(8) == 0 { // a slash middleware in front of the static route
			c.Pre = []string{"add", "remove", "remove"}[r.Intn(3)]
			slashCfg()
			if r.Intn(3) != 0 { // mostly forwarding, so that the static handler is reached
				c.Code = 0
			}
			c.Method = ""
		}
	}
	switch c.Comp {
	case "add", "remove":
		slashCfg()
	case "static":
		c.Tree = r.Intn(len(c17Trees))
		c.Prefix = []string{"/", "/", "/", "/s", "/s/", "", "/:site/", "/:site/assets", "/:site/s/", "/:a/:b/"}[r.Intn(10)]
		base, baseEnc = c17Instantiate(r, strings.TrimPrefix(c.Prefix, "/"))
		wantDir = true
		variant()
	case "gstatic":
		c.Tree = r.Intn(len(c17Trees))
		c.Group = []string{"", "", "/g", "/g", "/:site", "/:site", "/:a/:b", "/g/:site"}[r.Intn(8)]
		c.Prefix = []string{"/", "/", "/s", "/s/", "/:p/"}[r.Intn(5)]
		base, baseEnc = c17Instantiate(r, strings.TrimPrefix(c.Group+c.Prefix, "/"))
		wantDir = true
		variant()
	}
	dec, enc := c17GenPath(r, base, baseEnc, wantDir)
	if c.Comp == "remove" && r.Intn(2) == 0 {
		dec += "/"
		enc += "/"
	}
	// plain well-formed paths (the "ordinary" clause), one case in eight
	if r.Intn(8) == 0 {
		p := "/" + []string{"users", "a/b", "x.y", "a%20b", "~u", "s", "api/v1", "a%2Fb", "x%5Cy", "a//b"}[r.Intn(10)]
		if r.Intn(2) == 0 {
			p += "/"
		}
		dec, enc = p, p // decoded below by url.ParseRequestURI
	} else if wantDir && r.Intn(6) == 0 {
		// static routes: exactly one of the directories of the tree (the odd names included),
		// special characters escaped or raw
		t := c17Trees[c.Tree]
		name := t.dirs[r.Intn(len(t.dirs))]
		if name == "." {
			name = ""
		}
		if r.Intn(3) == 0 { // … or of its regular files (the index pages among them), sometimes with a slash behind it
			name = t.files[r.Intn(len(t.files))]
			if r.Intn(6) == 0 {
				name += "/"
			}
		}
		var d, en strings.Builder
		d.WriteString("/" + base)
		en.WriteString("/" + baseEnc)
		if base != "" && !strings.HasSuffix(base, "/") && r.Intn(2) == 0 {
			d.WriteString("/")
			en.WriteString("/")
		}
		for i := 0; i < len(name); i++ {
			ch := name[i]
			d.WriteByte(ch)
			if ch < 0x20 || ch == '\\' || r.Intn(8) == 0 {
				if ch >= 0x20 && r.Intn(2) == 0 {
					en.WriteByte(ch)
				} else {
					fmt.Fprintf(&en, "%%%02X", ch)
				}
			} else {
				en.WriteByte(ch)
			}
		}
		dec, enc = d.String(), en.String()
	}
	if wantDir && r.Intn(7) == 0 {
		dec, enc = c17GenFilePath(r, c17Trees[c.Tree], base, baseEnc)
	}
	// the two request paths of a real server that do not start with "/": "" (absolute-form
	// target without a path, CONNECT) and "*" (OPTIONS *)
	if (c.Comp == "add" || c.Comp == "remove") && r.Intn(60) == 0 {
		dec = []string{"", "*"}[r.Intn(2)]
		enc = dec
	}
	c.Query = a2bstr(c17Queries[r.Intn(len(c17Queries))])
	// what a real server would have put into URL.Path / URL.RawPath, when the target is one a
	// server accepts; otherwise the fields are set directly
	if u, err := url.ParseRequestURI(enc); err == nil && strings.HasPrefix(enc, "/") && !strings.Contains(enc, "?") {
		c.Path, c.RawPath = a2bstr(u.Path), a2bstr(u.RawPath)
	} else {
		c.Path = a2bstr(dec)
		if enc != dec && r.Intn(4) != 0 {
			c.RawPath = a2bstr(enc)
		}
	}
	// present but empty: the target ends in a bare `?` (what url.ParseRequestURI makes of "/x?")
	if c.Query == "" && r.Intn(4) == 0 {
		c.ForceQuery = true
	} else if r.Intn(40) == 0 {
		c.ForceQuery = true // with a query: the flag says nothing
	}
	// present without saying anything new: a RawPath that only repeats Path
	if c.RawPath == "" && r.Intn(15) == 0 {
		c.RawPath = c.Path
	}
	if r.Intn(25) == 0 {
		c.Fragment = a2bstr([]string{"f", "/evil.com", "//evil.com", "?x"}[r.Intn(4)])
	}
	if r.Intn(25) == 0 {
		c.Host = []string{"evil.com", "example.com:8080", "localhost"}[r.Intn(3)]
	}
	// the mount point itself, without the slash that would make it match the wildcard route
	if wantDir && base != "" && r.Intn(12) == 0 {
		c.Path, c.RawPath = a2bstr("/"+strings.TrimSuffix(base, "/")), ""
		if baseEnc != base {
			c.RawPath = a2bstr("/" + strings.TrimSuffix(baseEnc, "/"))
		}
	}
	// the protocol version the request names, and its Host header
	st := c.step0()
	c17GenConn(r, &st)
	c.setStep0(st)
	// further requests through the same application (the same middleware instances): the same
	// path with another query, another path with the same query, an exact repeat
	k := 8
	if c.Comp == "add" || c.Comp == "remove" {
		k = 4
	}
	if r.Intn(k) == 0 {
		prev := c.step0()
		for i, n := 0, 1+r.Intn(3); i < n; i++ {
			nx := prev
			switch r.Intn(6) {
			case 0, 1: // same path, other query
				nx.Query = a2bstr(c17Queries[r.Intn(len(c17Queries))])
				nx.ForceQuery = false
			case 2: // same path, no query
				nx.Query, nx.ForceQuery = "", r.Intn(3) == 0
			case 3: // other path, same query
				alt := c17GenCase0(r, c)
				nx.Path, nx.RawPath = alt.Path, alt.RawPath
			case 4: // the first request again
				nx = c.step0()
			default: // exact repeat
			}
			if r.Intn(4) == 0 {
				c17GenConn(r, &nx)
			}
			c.More = append(c.More, nx)
			prev = nx
		}
	}
	return c
}

// c17GenCase0: another request path for the same application
func c17GenCase0(r *rand.Rand, c *c17Case) c17Step {
	st := c.step0()
	if c.Comp == "add" || c.Comp == "remove" {
		for try := 0; try < 6; try++ {
			d := c17GenCase(r)
			if (d.Comp == "add" || d.Comp == "remove") && d.Path != c.Path {
				st.Path, st.RawPath = d.Path, d.RawPath
				return st
			}
		}
		st.Path, st.RawPath = st.Path+"x", ""
		return st
	}
	// a static route: stay below the mount point
	tail := []string{"/", "/..", "/a", "/.", "/evil.com", "/../g"}[r.Intn(6)]
	st.Path += a2bstr(tail)
	if st.RawPath != "" {
		st.RawPath += a2bstr(tail)
	}
	return st
}

func c17GenConn(r *rand.Rand, st *c17Step) {
	st.Proto, st.NoHost, st.ReqHost, st.TLS = "", false, "", false
	switch k := r.Intn(40); {
	case k < 5:
		st.Proto = "1.0"
		st.NoHost = r.Intn(2) == 0 // HTTP/1.0 needs no Host header
	case k < 7:
		st.Proto = "2.0"
	case k < 8:
		st.Proto = "0.9"
		st.NoHost = true
	}
	if !st.NoHost && r.Intn(10) == 0 {
		st.ReqHost = []string{"evil.com", "example.com:8080", "[::1]:80", "a b"}[r.Intn(4)]
	}
	st.TLS = r.Intn(20) == 0
}

func c17Gen(r *rand.Rand, tier string) []any {
	n := 6000
	if tier == "thorough" {
		n = 400000
	}
	out := make([]any, 0, n+2000)
	for i := 0; i < n; i++ {
		out = append(out, c17GenCase(r))
	}
	// boundary lengths of the sanitiser, exhaustively: every string of length 1-4 over the
	// significant alphabet {/, \, TAB, LF, e} that starts with / or \, through both slash
	// middlewares, with and without query
	const alpha = "/\\\t\ne"
	var tails []string
	for l := 0; l <= 3; l++ {
		idx := make([]int, l)
		for {
			t := make([]byte, l)
			for i, k := range idx {
				t[i] = alpha[k]
			}
			tails = append(tails, string(t))
			i := l - 1
			for i >= 0 {
				idx[i]++
				if idx[i] < len(alpha) {
					break
				}
				idx[i] = 0
				i--
			}
			if i < 0 {
				break
			}
		}
	}
	for _, first := range []string{"/", "\\"} {
		for _, t := range tails {
			for _, comp := range []string{"add", "remove"} {
				for _, q := range []string{"", "a=1", "?"} {
					p := first + t
					if comp == "remove" {
						p += "/"
					}
					if q == "?" { // the target ends in a bare `?`
						out = append(out, &c17Case{Comp: comp, Code: 301, Path: a2bstr(p), ForceQuery: true})
						continue
					}
					out = append(out, &c17Case{Comp: comp, Code: 301, Path: a2bstr(p), Query: a2bstr(q)})
				}
			}
		}
	}
	return out
}

func c17Shrink(ci any) []any {
	c := ci.(*c17Case)
	var out []any
	if c.Method != "" {
		d := *c
		d.Method = ""
		out = append(out, &d)
	}
	if c.Query != "" {
		d := *c
		d.Query = ""
		out = append(out, &d)
	}
	// sequences: drop a later request, let a later request take the place of the first one, make
	// a later request plainer
	for i := range c.More {
		d := *c
		d.More = append(append([]c17Step(nil), c.More[:i]...), c.More[i+1:]...)
		out = append(out, &d)
	}
	if len(c.More) > 0 {
		d := *c
		d.setStep0(c.More[0])
		d.More = append([]c17Step(nil), c.More[1:]...)
		out = append(out, &d)
	}
	for i, st := range c.More {
		set := func(ns c17Step) {
			d := *c
			d.More = append([]c17Step(nil), c.More...)
			d.More[i] = ns
			out = append(out, &d)
		}
		if st.Proto != "" || st.NoHost || st.ReqHost != "" || st.TLS || st.Fragment != "" || st.Host != "" || st.Method != "" {
			ns := st
			ns.Proto, ns.NoHost, ns.ReqHost, ns.TLS, ns.Fragment, ns.Host, ns.Method = "", false, "", false, "", "", ""
			set(ns)
		}
		if st.RawPath != "" {
			ns := st
			ns.RawPath = ""
			set(ns)
		}
		if len(st.Query) > 1 {
			ns := st
			ns.Query = st.Query[:len(st.Query)/2]
			set(ns)
			ns.Query = st.Query[:len(st.Query)-1]
			set(ns)
		}
		if len(st.Path) > 2 {
			ns := st
			ns.Path = st.Path[:len(st.Path)-1]
			set(ns)
		}
	}
	if c.Proto != "" || c.NoHost || c.ReqHost != "" || c.TLS {
		d := *c
		d.Proto, d.NoHost, d.ReqHost, d.TLS = "", false, "", false
		out = append(out, &d)
		if c.TLS {
			d2 := *c
			d2.TLS = false
			out = append(out, &d2)
		}
		if c.ReqHost != "" {
			d2 := *c
			d2.ReqHost = ""
			out = append(out, &d2)
		}
	}
	if len(c.Query) > 1 {
		d := *c
		d.Query = c.Query[:len(c.Query)/2]
		out = append(out, &d)
		d2 := *c
		d2.Query = c.Query[:len(c.Query)-1]
		out = append(out, &d2)
	}
	if c.Fragment != "" || c.Host != "" {
		d := *c
		d.Fragment, d.Host = "", ""
		out = append(out, &d)
	}
	if c.ForceQuery {
		d := *c
		d.ForceQuery = false
		out = append(out, &d)
	}
	if c.Pre != "" {
		d := *c
		d.Pre, d.Ctor, d.Skip, d.Code = "", "", 0, 0
		out = append(out, &d)
	}
	if c.Variant != "" {
		d := *c
		d.Variant = ""
		out = append(out, &d)
	}
	if c.Ctor != "" {
		d := *c
		d.Ctor, d.Code = "", 0
		out = append(out, &d)
	}
	if c.Skip != 0 {
		d := *c
		d.Skip = 0
		out = append(out, &d)
	}
	if c.RawPath != "" {
		d := *c
		d.RawPath = ""
		out = append(out, &d)
	}
	if c.Code != 301 && c.Code != 0 && (c.Comp == "add" || c.Comp == "remove") {
		d := *c
		d.Code = 301
		out = append(out, &d)
	}
	if c.Comp == "gstatic" && c.Group != "" && strings.HasPrefix(string(c.Path), c.Group) {
		d := *c
		d.Group = ""
		d.Path = c.Path[len(c.Group):]
		if strings.HasPrefix(string(c.RawPath), c.Group) {
			d.RawPath = c.RawPath[len(c.Group):]
		}
		out = append(out, &d)
	}
	// an escaped target: drop one (escaped) character and keep Path what a server would derive from it
	if rp := string(c.RawPath); rp != "" {
		for i := len(rp) - 1; i >= 1; i-- {
			if (i >= 1 && rp[i-1] == '%') || (i >= 2 && rp[i-2] == '%') {
				continue
			}
			n := 1
			if rp[i] == '%' && i+3 <= len(rp) {
				n = 3
			}
			cut := rp[:i] + rp[i+n:]
			if dec, err := url.PathUnescape(cut); err == nil {
				d := *c
				d.RawPath, d.Path = a2bstr(cut), a2bstr(dec)
				if cut == dec {
					d.RawPath = ""
				}
				out = append(out, &d)
			}
		}
	}
	for i := len(c.Path) - 1; i >= 0; i-- {
		d := *c
		d.Path = c.Path[:i] + c.Path[i+1:]
		out = append(out, &d)
	}
	// drop one escaped or plain character of RawPath
	rp := string(c.RawPath)
	for i := len(rp) - 1; i >= 0; i-- {
		if rp[i] == '%' && i+2 < len(rp)+0 && i+3 <= len(rp) {
			d := *c
			d.RawPath = a2bstr(rp[:i] + rp[i+3:])
			out = append(out, &d)
		} else if !(i >= 1 && rp[i-1] == '%') && !(i >= 2 && rp[i-2] == '%') {
			d := *c
			d.RawPath = a2bstr(rp[:i] + rp[i+1:])
			out = append(out, &d)
		}
	}
	return out
}

// c17Mutate: neighbours of a case on which model and implementation disagree — the same
// component, method, code and query with the classic hostile paths, so that the search for a
// failing input of the property itself starts where one is most likely.
func c17Mutate(r *rand.Rand, ci any) []any {
	c := ci.(*c17Case)
	var out []any
	for _, p := range []string{"//example.com", "/\\example.com", "/\t/example.com", "/\\\n/example.com", "/\r\n//example.com", "///example.com/..", "//example.com/../.."} {
		for _, q := range []string{string(c.Query), "", "next=1", "?"} {
			d := *c
			d.More = nil
			d.Path, d.RawPath, d.Query = a2bstr(p), "", a2bstr(q)
			d.ForceQuery = false
			if q == "?" {
				d.Query, d.ForceQuery = "", true
			}
			if c.Comp == "remove" {
				d.Path += "/"
			}
			if c.Comp == "static" || c.Comp == "gstatic" {
				d.Group, d.Prefix = "", "/"
			}
			out = append(out, &d)
		}
	}
	// static routes: the regular files of the tree (index pages included) behind the same prefixes, cancelled by dot
	// segments, at a root mount
	if c.Comp == "static" || c.Comp == "gstatic" {
		t := c17Trees[((c.Tree%len(c17Trees))+len(c17Trees))%len(c17Trees)]
		for _, pre := range []string{"//example.com/..", "/\\example.com/..", "/\t/example.com/..", "///example.com/../a/.."} {
			for _, f := range t.files {
				for _, tail := range []string{"", "/"} {
					d := *c
					d.More, d.Method, d.Query, d.ForceQuery, d.Pre = nil, "", "", false, ""
					d.Group, d.Prefix = "", "/"
					d.Path, d.RawPath = a2bstr(pre+"/"+f+tail), ""
					out = append(out, &d)
				}
			}
		}
	}
	// a mount point below a path parameter: the hostile value goes where the parameter is
	if (c.Comp == "static" || c.Comp == "gstatic") && strings.Contains(c.Group+c.Prefix, ":") {
		pattern := strings.TrimPrefix(c.Prefix, "/")
		if c.Comp == "gstatic" {
			pattern = strings.TrimPrefix(c.Group+c.Prefix, "/")
		}
		for _, t := range c17ParamSegs {
			segs := strings.Split(pattern, "/")
			es := make([]string, len(segs))
			for i, sg := range segs {
				if strings.HasPrefix(sg, ":") {
					segs[i], es[i] = t.dec, t.enc
				} else {
					es[i] = sg
				}
			}
			for _, tail := range []string{"", "a", "evil.com", "g", "-", "index.html", "a/index.html", "evil.com/index.html", "f.txt"} {
				dec, enc := "/"+strings.Join(segs, "/"), "/"+strings.Join(es, "/")
				if tail == "-" { // the mount point itself, without its trailing slash
					dec, enc = strings.TrimSuffix(dec, "/"), strings.TrimSuffix(enc, "/")
				} else if tail != "" {
					if !strings.HasSuffix(dec, "/") {
						dec, enc = dec+"/", enc+"/"
					}
					dec, enc = dec+tail, enc+tail
				}
				d := *c
				d.Method, d.Query, d.Pre = "", "", ""
				d.Path, d.RawPath = a2bstr(dec), ""
				if enc != dec {
					d.RawPath = a2bstr(enc)
				}
				out = append(out, &d)
			}
		}
	}
	return out
}

// ---------- Tolerable: differences between implementation and model the property does not speak about ----------
//
// What C17 constrains, and therefore what must agree (or hold on the implementation's side by itself):
//
//	clause 1 (all four components): a Location that is produced is, as a browser reads it, a path-absolute
//	  reference without `//`, `/\` or scheme  ->  the two verdict flags of an `R` answer (sameHost, staysOnHost).
//	clause 2 (slash middlewares, ordinary paths): the target is exactly path±"/" with the query preserved, in
//	  redirect mode (Location) and in forward mode (what the next handler sees); a path that needs no change is
//	  left alone.
//
// What it does not constrain: WHICH 3xx code carries a redirect; the text of a Location to which only clause 1
// applies (static routes: e.g. whether the query is repeated; slash middlewares on the hostile, non-ordinary
// paths: how the leading run is collapsed), as long as the browser's verdict is the same; whether an empty but
// present query (bare `?`) is kept or dropped; which error status answers a request that is neither redirected
// nor served; what the next handler sees in forward mode for a non-ordinary path (no redirect is produced).
//
// Never tolerated: a different KIND of answer (redirect / handler ran / file served / refused / anything else),
// a different browser verdict, any deviation from clause 2 on an ordinary path, anything about a request the
// Skipper took out of the middleware's hands, a panic, a different number of answers.

type c17Ans struct {
	kind      string // R | N | F | refused | other
	raw       string // the tokens of the answer
	code      int    // R
	loc       string // R
	f1, f2    string // R: sameHost, staysOnHost
	path, uri string // N
}

func c17TolStr(tok string) (string, bool) {
	if !strings.HasPrefix(tok, "s") {
		return "", false
	}
	b, err := hex.DecodeString(tok[1:])
	return string(b), err == nil
}

// c17ParseObs reads `n answer…` (the format of encOut in lean/EchoModel/C17.lean and of serve above)
func c17ParseObs(line string) ([]c17Ans, bool) {
	t := strings.Fields(line)
	if len(t) == 0 {
		return nil, false
	}
	n, err := strconv.Atoi(t[0])
	if err != nil || n < 0 {
		return nil, false
	}
	t = t[1:]
	var out []c17Ans
	for len(t) > 0 {
		var a c17Ans
		k := 1
		switch {
		case t[0] == "R" && len(t) >= 5:
			k = 5
			code, err := strconv.Atoi(t[1])
			loc, ok := c17TolStr(t[2])
			if err != nil || !ok || (t[3] != "0" && t[3] != "1") || (t[4] != "0" && t[4] != "1") {
				return nil, false
			}
			a = c17Ans{kind: "R", code: code, loc: loc, f1: t[3], f2: t[4]}
		case t[0] == "N" && len(t) >= 3:
			k = 3
			p, ok1 := c17TolStr(t[1])
			u, ok2 := c17TolStr(t[2])
			if !ok1 || !ok2 {
				return nil, false
			}
			a = c17Ans{kind: "N", path: p, uri: u}
		case t[0] == "F":
			a.kind = "F"
		case t[0] == "404" || t[0] == "E":
			a.kind = "refused"
		case len(t[0]) > 1 && t[0][0] == 'X':
			st, err := strconv.Atoi(t[0][1:])
			if err != nil {
				return nil, false
			}
			a.kind = "other"
			if st >= 400 && st <= 599 {
				a.kind = "refused"
			}
		default: // "panic", "bad-op", "model-error", a truncated answer
			return nil, false
		}
		a.raw = strings.Join(t[:k], " ")
		out = append(out, a)
		t = t[k:]
	}
	return out, len(out) == n
}

// c17TolStep: the request an answer belongs to, and the slash middleware that saw it ("" = none)
type c17TolStep struct {
	mw string // add | remove | ""
	st c17Step
}

// c17Clause2 evaluates the second clause of the property on ONE answer of the implementation: applies = the
// clause fixes the answer to this request (an ordinary path through a slash middleware that is not skipped and
// works with a valid redirect code or forwards); holds = the answer is what the clause demands.
// forwardVisible: the next handler's view is part of the answer (false in front of a static route).
func c17Clause2(c *c17Case, ts c17TolStep, a c17Ans, forwardVisible bool) (applies, holds bool) {
	path, qs := string(ts.st.Path), string(ts.st.Query)
	effCode := c.Code
	if c.Ctor == "plain" {
		effCode = 0
	}
	q := ""
	if qs != "" {
		q = "?" + qs
	}
	bare := ts.st.ForceQuery && qs == ""
	want, change := "", false
	if ts.mw == "add" && c17Ordinary(path) && !strings.HasSuffix(path, "/") {
		want, change = path+"/", true
	}
	if ts.mw == "remove" && strings.HasSuffix(path, "/") && c17Ordinary(strings.TrimSuffix(path, "/")) {
		want, change = strings.TrimSuffix(path, "/"), true
	}
	okTarget := func(got string) bool { return got == want+q || (bare && got == want+"?") }
	switch {
	case change && effCode >= 300 && effCode <= 308:
		return true, a.kind == "R" && okTarget(a.loc)
	case change && effCode == 0:
		if !forwardVisible {
			return false, false
		}
		return true, a.kind == "N" && a.path == want && okTarget(a.uri)
	case change: // a RedirectCode that is no redirect code: the property does not say what happens
		return false, false
	case c17Ordinary(path) || path == "/":
		if !forwardVisible {
			return false, false
		}
		return true, a.kind == "N" && a.path == path && a.uri == c17ReqURI
	}
	return false, false
}

func c17Tolerable(ci any, implObs, modelObs string) bool {
	c, ok := ci.(*c17Case)
	if !ok {
		return false
	}
	impl, ok1 := c17ParseObs(implObs)
	model, ok2 := c17ParseObs(modelObs)
	if !ok1 || !ok2 || len(impl) != len(model) {
		return false
	}
	// which request each answer belongs to (requests without a model line have no answer in Obs: a static
	// route that was not reached - those answers are all judged alike, so no alignment is needed there)
	var steps []c17TolStep
	aligned := false
	all := append([]c17Step{c.step0()}, c.More...)
	switch {
	case c.Comp == "add" || c.Comp == "remove":
		aligned = true
		for _, st := range all {
			steps = append(steps, c17TolStep{c.Comp, st})
		}
	case (c.Comp == "static" || c.Comp == "gstatic") && (c.Pre == "add" || c.Pre == "remove"):
		aligned = true
		for _, st := range all {
			if st.Method == "" || st.Method == http.MethodGet {
				steps = append(steps, c17TolStep{c.Pre, st})
			}
		}
	case c.Comp == "static" || c.Comp == "gstatic":
	default:
		return false
	}
	if aligned && len(steps) != len(impl) {
		return false
	}
	for i := range impl {
		a, m := impl[i], model[i]
		if a.raw == m.raw {
			continue
		}
		// never: another kind of answer (redirect vs not, handler ran vs not, served vs refused)
		if a.kind != m.kind {
			return false
		}
		slashOnly := c.Comp == "add" || c.Comp == "remove"
		if aligned {
			ts := steps[i]
			skipped := c.Ctor != "plain" && c17Skips(c.Skip, string(ts.st.Path))
			if skipped && slashOnly {
				return false // the Skipper's contract (nothing happens) is not ours to loosen
			}
			if !skipped {
				if applies, holds := c17Clause2(c, ts, a, slashOnly); applies {
					if !holds {
						return false
					}
					// clause 2 holds on the implementation's answer by itself; what is left to differ is the 3xx
					// code and the bare `?` - and clause 1, checked below for every redirect
				}
			}
		}
		switch a.kind {
		case "R":
			// clause 1: the browser's verdict must be the same; the code and the text are free where clause 2
			// does not apply (and were checked against clause 2 above where it does)
			if a.f1 != m.f1 || a.f2 != m.f2 {
				return false
			}
			if a.code < 300 || a.code > 399 || m.code < 300 || m.code > 399 {
				return false
			}
		case "refused":
			// which error status refuses: free
		case "N":
			// forward mode, no redirect produced: free for the non-ordinary paths (the ordinary ones were
			// checked against clause 2 above); the next handler exists only behind a bare slash middleware
			if !slashOnly {
				return false
			}
		default: // F answers are equal as tokens; "other" statuses are not ours to judge
			return false
		}
	}
	return true
}

func init() {
	register(&Prop{
		ID:        "C17",
		Rule:      "request URLs built from tokens: first char `/` (rarely `\\` or none), optional static route prefix, a leading mix of 0-4 of {/, \\, %2f, %5c, TAB, CR, LF (raw or escaped), other C0 controls, space, DEL, NBSP}, a host-like or tree segment, `..` climbs (plain/escaped) back to a directory for the static components, tails, +/- query; URL.Path/RawPath as a real server would set them when the target parses, set directly otherwise; x {AddTrailingSlash, RemoveTrailingSlash (RedirectCode 300..308, 0 = forward, invalid codes; 1 in 10 built with the constructor without config, 1 in 10 with a Skipper: nil-equivalent DefaultSkipper / always / paths containing 'example'), Echo.Static, Group.Static over two real directory trees} x request method (GET for half of the slash cases and 4/5 of the static cases, else HEAD/POST/PUT/PATCH/DELETE/OPTIONS/PROPFIND/X-CUSTOM/lower-case get; the model ignores the method); static routes: mount point below a literal prefix, the root, or a PATH PARAMETER (`/:site/`, `/:site/assets`, `/:a/:b/`, groups `/:site`, `/g/:site`: the parameter segments filled with {acme, \\example.com, %5Cexample.com, %2Fexample.com, %09%5Cexample.com, empty, ...}), half of them registered through another entry point (Static with a relative root, StaticFS with os.DirFS / MustSubFS / fstest.MapFS, GET or Add with StaticDirectoryHandler with and without path unescaping), 1 in 8 with a slash middleware under e.Pre in front of the route (mostly forwarding); one case in eight is a plain path for the 'ordinary paths' clause; queries include ones url.ParseQuery rejects (`discount=100%`, `%zz`, `a=1;b=2`, `;`, `=`, `&&`, NUL, 300 bytes); 1 request in 5 names another protocol version (HTTP/1.0 - half of them without Host header -, HTTP/2.0, HTTP/0.9), 1 in 10 of the others another Host header, 1 in 20 came over TLS; a quarter of the slash cases and an eighth of the static cases are SEQUENCES of 2-4 requests through one application (the same path with another query / without query, another path with the same query, exact repeats), each request judged on its own; URL parts that are present but empty: a quarter of the query-less targets end in a bare `?` (URL.ForceQuery), 1 in 15 RawPath == Path, 1 in 25 a fragment, 1 in 25 an absolute-form target (URL.Host); 1 static case in 12 asks for the mount point itself without its slash; the names a file server gives a meaning of their own - the index page `index.html` (plain, escaped, other case, with a slash behind it) and the regular files of the trees - are among the host-like segments and tails, a third of the 'exactly one name of the tree' requests name a file, and 1 static case in 7 asks for a regular file (2 in 3: an index page) through a prefix that looks like another host and is cancelled by dot segments (`//example.com/%2e%2e/index.html`); Mutate adds every file of the tree behind the classic hostile prefixes at a root mount and below parameter mounts; a slash-middleware constructor that refuses an invalid RedirectCode leaves nothing to judge (tagged); plus, exhaustively, every string of length 1-4 over {/, \\, TAB, LF, e} starting with / or \\ through both slash middlewares without query, with query and with a bare `?` (1872 cases). non-trivial = a redirect was produced and the unsanitised target (path±/ + query) would be read by a browser as an authority (another host); distinct = distinct model op lines",
		New:       func() any { return &c17Case{} },
		Gen:       c17Gen,
		Run:       c17Run,
		Shrink:    c17Shrink,
		Mutate:    c17Mutate,
		Known:     func(c any, res Result, modelObs string) string { return "" },
		Tolerable: c17Tolerable,
		Extra: func(tier string, seed int64) map[string]any {
			c17Cleanup()
			return nil
		},
		Correspondence: "C17.runSeq (requests one after the other through one application) over C17.runReq = C17.slashMw (the four slash constructors + Skipper) / C17.staticHandler (StaticDirectoryHandler with and without unescaping) / their composition under e.Pre, C17.sanitizeURI and the spec predicate C17.sameHost (lean/EchoModel/C17.lean) vs middleware.AddTrailingSlash / RemoveTrailingSlash (+WithConfig), Echo.Static / Echo.StaticFS / Group.Static / Group.StaticFS / echo.StaticDirectoryHandler at literal, root and path-parameter mount points, and the harness' WHATWG reading of Location",
	})
}
