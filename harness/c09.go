package main

// C09 — binding honours explicit source tags and the path < query < body order.
//
// Real code: DefaultBinder.BindPathParams / BindQueryParams / BindHeaders and c.Bind on
// destination types built with reflect.StructOf (tagged / untagged / differently tagged fields,
// nested and embedded structs, pointers, unexported fields) and on a hand catalogue
// (unmarshalers, maps, embedded named types), plus map and non-struct destinations.
// Model: lean/EchoModel/C09.lean (bindData, bind).
// Oracle (model-free): a leaf without the tag for a source — or whose tag no key of that source
// equals under case folding — never changes; the last applicable source that carries a key wins;
// unsupported media type with a non-empty body gives 415; a malformed value in an applied source
// gives 400; no panic.

import (
	"bytes"
	"encoding"
	"encoding/json"
	"encoding/xml"
	"errors"
	"fmt"
	"math/rand"
	"mime"
	"mime/multipart"
	"net/http"
	"net/http/httptest"
	"net/url"
	"reflect"
	"sort"
	"strings"

	"github.com/labstack/echo/v4"
)

// ---------- case ----------

type c09Field struct {
	Name  string            `json:"n"`
	Kind  string            `json:"k"` // string int int8 uint16 bool *string *int []string []int8 struct *struct map iface unm multi []multi file* []file* []file file
	Tags  map[string]string `json:"t,omitempty"`
	Anon  bool              `json:"anon,omitempty"`
	Unexp bool              `json:"unexp,omitempty"`
	Sub   []c09Field        `json:"sub,omitempty"`
}

type c09KV struct {
	K string   `json:"k"`
	V []string `json:"v"`
}

type c09Case struct {
	Dest     string        `json:"dest"`           // struct | cat:<name> | twin:<family>:<k> | map:str | map:iface | map:strs | map:int | nonstruct
	Warm     []c09WarmStep `json:"warm,omitempty"` // binds made before the one under test, in the same process
	Fields   []c09Field    `json:"fields,omitempty"`
	InitSeed int64         `json:"init_seed"`
	Serial   string        `json:"serializer,omitempty"` // e.JSONSerializer: "" default | raw (application serializer returning the decoder's plain errors) | strict (the same, unknown fields rejected)
	Binder   string        `json:"binder,omitempty"`     // e.Binder: "" default | delegate (application binder calling DefaultBinder.Bind)
	Op       string        `json:"op"`                   // param | query | header | bind | body (BindBody alone)
	Method   string        `json:"method,omitempty"`
	Params   []c09KV       `json:"params,omitempty"` // one value each
	Query    []c09KV       `json:"query,omitempty"`
	RawTail  string        `json:"raw_tail,omitempty"` // appended verbatim to the encoded query string (malformed pairs: `&x=%zz`, `;a=1` …)
	Header   []c09KV       `json:"header,omitempty"`
	Junk     int           `json:"junk,omitempty"`       // that many unrelated keys (`junk-0000` …, value `j`) in FRONT of the keys of the source under test: path params (param), URL query (query / bind without form body), headers (header), body pairs (form / multipart bodies)
	RawHdr   bool          `json:"raw_header,omitempty"` // header names are put into the request's map as spelled (tests, middlewares, gateways do that); default: canonical MIME form, as net/http reads them from the wire
	CType    string        `json:"ctype,omitempty"`
	BodyKind string        `json:"body_kind,omitempty"` // none | raw | form | multipart
	Body     string        `json:"body,omitempty"`      // raw
	Form     []c09KV       `json:"form,omitempty"`      // form / multipart
	Files    []c09KV       `json:"files,omitempty"`     // multipart: field name -> file names
	Boundary string        `json:"boundary,omitempty"`  // multipart: boundary written into the BODY (default c09boundary)
	Truncate int           `json:"truncate,omitempty"`  // multipart: cut that many bytes off the end of the body
	LenMode  string        `json:"len_mode,omitempty"`  // "" exact | "unknown" (-1) | "chunked" (-1 + TransferEncoding chunked) | "server" (real connection, chunked upload; bind / body ops without path params) | "zero" (0 although a body is present)
}

// ---------- hand catalogue ----------

type C09Inner struct {
	A string `query:"a" form:"a" param:"a" header:"a" json:"a"`
	B int    `json:"b"`
}

type c09hidden struct {
	H string `query:"h" form:"h" param:"h" header:"h"`
}

type c09CatEmbedded struct {
	C09Inner
	X string `query:"x" json:"x"`
	Y string `json:"y"`
}

type c09CatEmbeddedPtr struct {
	*C09Inner
	X string `form:"x" json:"x"`
}

type c09CatEmbeddedTagged struct {
	C09Inner `query:"inner" form:"inner"`
	X        string `query:"x" param:"x"`
}

type c09CatUnexported struct {
	c09hidden
	secret string `query:"secret" form:"secret" param:"secret" header:"secret"`
	Open   string `query:"open" form:"open" param:"open" header:"open"`
}

type c09CatUnm struct {
	U  c08Unm  `query:"u" form:"u" param:"u" header:"u"`
	V  c08Unm  // untagged BindUnmarshaler struct: never bound
	T  c08Text `query:"t" form:"t"`
	W  c08Text // untagged TextUnmarshaler struct: walked, has no tagged field
	ID int     `param:"id" query:"id" form:"id" json:"id"`
}

type c09CatMapField struct {
	M  map[string]string `query:"m" form:"m" param:"m" header:"m" json:"m"`
	N  map[string]string
	I  interface{} `query:"i" form:"i"`
	J  interface{}
	S  C09Inner  `query:"s" form:"s" param:"s"` // tagged plain struct: "unknown type" when the key is sent
	P  *C09Inner `query:"p" form:"p"`           // tagged pointer to struct: allocated, then "unknown type"
	Q  *C09Inner // untagged pointer to struct: not walked
	ID string    `query:"id" form:"id" param:"id" header:"id" json:"id"`
}

type c09CatMass struct {
	ID      int    `param:"id" json:"id"`
	Name    string `query:"name" form:"name" json:"name"`
	IsAdmin bool   `json:"-"`
	Role    string
	Balance int `header:"x-balance"`
	Nested  struct {
		Owner string
		Note  string `form:"note" query:"note"`
	}
}

// multipart file fields in every spelling bind.go knows, next to ordinary and multi-value fields
type c09CatFiles struct {
	Doc    *multipart.FileHeader   `form:"doc" query:"doc"`
	Docs   []*multipart.FileHeader `form:"docs"`
	Vals   []multipart.FileHeader  `form:"vals" param:"vals"`
	Plain  multipart.FileHeader    // untagged: walked, nothing inside carries a tag
	Hidden *multipart.FileHeader   // untagged: never set
	QOnly  *multipart.FileHeader   `query:"qonly"` // tagged for another source only: files never reach it
	Name   string                  `form:"name" query:"name"`
	M      c08Multi                `form:"m" query:"m" param:"m" header:"m"`
	N      c08Multi                // untagged
	After  string                  `form:"after"`
}

// a tagged plain multipart.FileHeader: rejected as soon as the request carries any file
type c09CatFilePlain struct {
	Before string               `form:"before"`
	F      multipart.FileHeader `form:"f" query:"f"`
	After  string               `form:"after" query:"after"`
}

// tags that differ only in their separator (`-`, `_`, `.`) or have none: a key equals a tag under case
// folding and nothing else — `X_Is_Admin` is not `X-Is-Admin`, `x_id` is not `x-id`
type c09CatSeparators struct {
	Dash     bool   `header:"X-Is-Admin" query:"is-admin" form:"is-admin" param:"is-admin"`
	Under    string `header:"x_legacy_id" query:"legacy_id" form:"legacy_id" param:"legacy_id"`
	Dot      string `header:"x.trace" query:"trace.id" form:"trace.id" param:"trace.id"`
	Plain    int    `header:"userid" query:"userid" form:"userid" param:"userid"`
	Both1    string `header:"x-id" query:"x-id" form:"x-id" param:"x-id"`
	Both2    string `header:"x_id" query:"x_id" form:"x_id" param:"x_id"`
	Untagged string
}

var c09Catalogue = map[string]reflect.Type{
	"separators":      reflect.TypeOf(c09CatSeparators{}),
	"embedded":        reflect.TypeOf(c09CatEmbedded{}),
	"embedded-ptr":    reflect.TypeOf(c09CatEmbeddedPtr{}),
	"embedded-tagged": reflect.TypeOf(c09CatEmbeddedTagged{}),
	"unexported":      reflect.TypeOf(c09CatUnexported{}),
	"unmarshalers":    reflect.TypeOf(c09CatUnm{}),
	"map-field":       reflect.TypeOf(c09CatMapField{}),
	"mass":            reflect.TypeOf(c09CatMass{}),
	"files":           reflect.TypeOf(c09CatFiles{}),
	"file-plain":      reflect.TypeOf(c09CatFilePlain{}),
}

var c09CatNames = []string{"embedded", "embedded-ptr", "embedded-tagged", "unexported", "unmarshalers", "map-field", "mass", "files", "file-plain", "separators"}

var (
	c09FilePtrT      = reflect.TypeOf((*multipart.FileHeader)(nil))
	c09FilePtrSliceT = reflect.TypeOf([]*multipart.FileHeader(nil))
	c09FileSliceT    = reflect.TypeOf([]multipart.FileHeader(nil))
	c09FilePlainT    = reflect.TypeOf(multipart.FileHeader{})
)

// c09FileKind: index of the model's FileKind, or -1
func c09FileKind(t reflect.Type) int {
	switch t {
	case c09FilePtrT:
		return 0
	case c09FilePtrSliceT:
		return 1
	case c09FileSliceT:
		return 2
	case c09FilePlainT:
		return 3
	}
	return -1
}

// ---------- building Go types from specs ----------

var c09KindTypes = map[string]reflect.Type{
	"string": reflect.TypeOf(""), "int": reflect.TypeOf(int(0)), "int8": reflect.TypeOf(int8(0)), "uint16": reflect.TypeOf(uint16(0)),
	"bool": reflect.TypeOf(false), "*string": reflect.TypeOf((*string)(nil)), "*int": reflect.TypeOf((*int)(nil)),
	"[]string": reflect.TypeOf([]string(nil)), "[]int8": reflect.TypeOf([]int8(nil)),
	"map": reflect.TypeOf(map[string]string(nil)), "iface": reflect.TypeOf((*interface{})(nil)).Elem(), "unm": c08UnmT,
	"multi": c08MultiT, "[]multi": reflect.SliceOf(c08MultiT),
	"file*": c09FilePtrT, "[]file*": c09FilePtrSliceT, "[]file": c09FileSliceT, "file": c09FilePlainT,
}

func c09TagString(t map[string]string) reflect.StructTag {
	var parts []string
	for _, k := range []string{"param", "query", "form", "header", "json"} {
		if v, ok := t[k]; ok && v != "" {
			parts = append(parts, fmt.Sprintf("%s:%q", k, v))
		}
	}
	return reflect.StructTag(strings.Join(parts, " "))
}

func c09BuildType(fields []c09Field) (t reflect.Type, err error) {
	defer func() {
		if p := recover(); p != nil {
			err = fmt.Errorf("StructOf: %v", p)
		}
	}()
	var sfs []reflect.StructField
	for _, f := range fields {
		var ft reflect.Type
		switch f.Kind {
		case "struct", "*struct":
			st, e := c09BuildType(f.Sub)
			if e != nil {
				return nil, e
			}
			ft = st
			if f.Kind == "*struct" {
				ft = reflect.PtrTo(st)
			}
		default:
			var ok bool
			ft, ok = c09KindTypes[f.Kind]
			if !ok {
				return nil, fmt.Errorf("unknown kind %q", f.Kind)
			}
		}
		sf := reflect.StructField{Name: f.Name, Type: ft, Tag: c09TagString(f.Tags), Anonymous: f.Anon}
		if f.Unexp {
			sf.PkgPath = "main"
		}
		sfs = append(sfs, sf)
	}
	return reflect.StructOf(sfs), nil
}

func c09DestType(c *c09Case) (reflect.Type, error) {
	switch {
	case c.Dest == "struct":
		return c09BuildType(c.Fields)
	case strings.HasPrefix(c.Dest, "cat:"):
		t, ok := c09Catalogue[strings.TrimPrefix(c.Dest, "cat:")]
		if !ok {
			return nil, fmt.Errorf("unknown catalogue entry %s", c.Dest)
		}
		return t, nil
	case strings.HasPrefix(c.Dest, "twin:"):
		t, ok := c09TwinType(c.Dest)
		if !ok {
			return nil, fmt.Errorf("unknown twin %s", c.Dest)
		}
		return t, nil
	case c.Dest == "map:str":
		return reflect.TypeOf(map[string]string(nil)), nil
	case c.Dest == "map:iface":
		return reflect.TypeOf(map[string]interface{}(nil)), nil
	case c.Dest == "map:strs":
		return reflect.TypeOf(map[string][]string(nil)), nil
	case c.Dest == "map:int":
		return reflect.TypeOf(map[string]int(nil)), nil
	case c.Dest == "nonstruct":
		return reflect.TypeOf([]string(nil)), nil
	}
	return nil, fmt.Errorf("unknown dest %q", c.Dest)
}

// ---------- Go type / value -> model shape / value ----------

var (
	c09BindUnmT = reflect.TypeOf((*echo.BindUnmarshaler)(nil)).Elem()
	c09TextUnmT = reflect.TypeOf((*encoding.TextUnmarshaler)(nil)).Elem()
)

var c09Sources = []string{"param", "query", "form", "header"}

func c09IsUnm(t reflect.Type) bool {
	return t.Kind() == reflect.Struct && (reflect.PtrTo(t).Implements(c09BindUnmT) || reflect.PtrTo(t).Implements(c09TextUnmT))
}

func c09ScalarKind(t reflect.Type) bool {
	switch t.Kind() {
	case reflect.String, reflect.Bool, reflect.Int, reflect.Int8, reflect.Int16, reflect.Int32, reflect.Int64,
		reflect.Uint, reflect.Uint8, reflect.Uint16, reflect.Uint32, reflect.Uint64:
		return true
	}
	return false
}

func c09ElemWire(t reflect.Type) string {
	fam, ty, _ := c08Classify("", t, true)
	return wInt(fam) + " " + wInt(ty)
}

func c09ShapeWire(t reflect.Type) string {
	switch {
	case c09IsUnm(t):
		return "4"
	case t == c08MultiT:
		return "7"
	case c09FileKind(t) >= 0:
		return "8 " + wInt(c09FileKind(t))
	case t.Kind() == reflect.Struct:
		return "5 " + c09FieldsWire(t)
	case t.Kind() == reflect.Ptr && t.Elem().Kind() == reflect.Struct && !c09IsUnm(t.Elem()):
		return "6 " + c09FieldsWire(t.Elem())
	case t.Kind() == reflect.Ptr && c09ScalarKind(t.Elem()):
		return "1 " + c09ElemWire(t.Elem())
	case t.Kind() == reflect.Slice && c09ScalarKind(t.Elem()):
		return "2 " + c09ElemWire(t.Elem())
	case c09ScalarKind(t):
		return "0 " + c09ElemWire(t)
	}
	return "3"
}

func c09FieldsWire(t reflect.Type) string {
	parts := []string{wInt(t.NumField())}
	for i := 0; i < t.NumField(); i++ {
		f := t.Field(i)
		for _, s := range c09Sources {
			parts = append(parts, wStr(f.Tag.Get(s)))
		}
		parts = append(parts, wBool(f.Anonymous), wBool(f.IsExported()), c09ShapeWire(f.Type))
	}
	return strings.Join(parts, " ")
}

func c09LeafInfo(t reflect.Type) c08FieldInfo {
	info := c08FieldInfo{}
	if t == c08MultiT { // all values of the key, each accepted unless it starts with `!`
		return c08FieldInfo{Wrap: 2, E: t, Fam: famUnm}
	}
	switch {
	case t.Kind() == reflect.Ptr:
		info.Wrap, t = 1, t.Elem()
	case t.Kind() == reflect.Slice:
		info.Wrap, t = 2, t.Elem()
	}
	info.E = t
	info.Fam, info.Ty, _ = c08Classify("", t, true)
	return info
}

// c09Readable returns v such that its content can be read even for unexported fields
func c09ValWire(v reflect.Value) string {
	t := v.Type()
	switch {
	case c09IsUnm(t):
		s := ""
		if t == c08UnmT {
			s = v.Field(0).String()
		} else {
			s = v.Field(0).String()
		}
		return "0 0 " + c08SVal(famUnm, s)
	case t == c08MultiT || c09FileKind(t) >= 0:
		w, _, _ := c09SpecialRO(v)
		return "0 " + w
	case t.Kind() == reflect.Struct:
		return "1 " + c09ValsWire(v)
	case t.Kind() == reflect.Ptr && t.Elem().Kind() == reflect.Struct && !c09IsUnm(t.Elem()):
		if v.IsNil() {
			return "2"
		}
		return "1 " + c09ValsWire(v.Elem())
	case t.Kind() == reflect.Ptr && c09ScalarKind(t.Elem()), t.Kind() == reflect.Slice && c09ScalarKind(t.Elem()), c09ScalarKind(t):
		w, _, _ := c09FValRO(c09LeafInfo(t), v)
		return "0 " + w
	}
	return "3"
}

// multi-value unmarshaler and multipart file fields: FVal wire, canonical values, state
func c09SpecialRO(v reflect.Value) (wire string, vals []string, state string) {
	name := func(fh reflect.Value) string { // fh: multipart.FileHeader
		return fh.FieldByName("Filename").String()
	}
	many := func() (string, []string, string) {
		return "2 " + c08SVals(famStr, vals), vals, "many"
	}
	switch v.Type() {
	case c08MultiT:
		f := v.Field(0)
		for i := 0; i < f.Len(); i++ {
			vals = append(vals, f.Index(i).String())
		}
		return many()
	case c09FilePlainT:
		s := name(v)
		return "0 " + c08SVal(famStr, s), []string{s}, "one"
	case c09FilePtrT:
		if v.IsNil() {
			return "1", nil, "nil"
		}
		s := name(v.Elem())
		return "0 " + c08SVal(famStr, s), []string{s}, "one"
	case c09FileSliceT, c09FilePtrSliceT:
		if v.IsNil() {
			return "1", nil, "nil"
		}
		for i := 0; i < v.Len(); i++ {
			e := v.Index(i)
			if e.Kind() == reflect.Ptr {
				if e.IsNil() {
					vals = append(vals, "<nil>")
					continue
				}
				e = e.Elem()
			}
			vals = append(vals, name(e))
		}
		return many()
	}
	return "3", nil, "other"
}

// like c08FVal but does not call Interface() (works on unexported fields)
func c09FValRO(info c08FieldInfo, v reflect.Value) (wire string, vals []string, state string) {
	canon := func(x reflect.Value) string {
		switch x.Kind() {
		case reflect.Int, reflect.Int8, reflect.Int16, reflect.Int32, reflect.Int64:
			return fmt.Sprint(x.Int())
		case reflect.Uint, reflect.Uint8, reflect.Uint16, reflect.Uint32, reflect.Uint64:
			return fmt.Sprint(x.Uint())
		case reflect.Bool:
			return fmt.Sprint(x.Bool())
		}
		return x.String()
	}
	if v.Kind() == reflect.Ptr {
		if v.IsNil() {
			return "1", nil, "nil"
		}
		v = v.Elem()
	}
	if v.Kind() == reflect.Slice {
		if v.IsNil() {
			return "1", nil, "nil"
		}
		for i := 0; i < v.Len(); i++ {
			vals = append(vals, canon(v.Index(i)))
		}
		return "2 " + c08SVals(info.Fam, vals), vals, "many"
	}
	s := canon(v)
	return "0 " + c08SVal(info.Fam, s), []string{s}, "one"
}

func c09ValsWire(v reflect.Value) string {
	parts := []string{wInt(v.NumField())}
	for i := 0; i < v.NumField(); i++ {
		parts = append(parts, c09ValWire(v.Field(i)))
	}
	return strings.Join(parts, " ")
}

func c09DataWire(d map[string][]string) string {
	keys := make([]string, 0, len(d))
	for k := range d {
		keys = append(keys, k)
	}
	sort.Strings(keys)
	parts := []string{wInt(len(keys))}
	for _, k := range keys {
		parts = append(parts, wStr(k), wStrs(d[k]))
	}
	return strings.Join(parts, " ")
}

func c09DestWire(c *c09Case, t reflect.Type) string {
	switch c.Dest {
	case "map:str":
		return "1"
	case "map:iface":
		return "2"
	case "map:strs":
		return "3"
	case "map:int":
		return "4"
	case "nonstruct":
		return "5"
	}
	return "0 " + c09FieldsWire(t)
}

// state of the whole destination
func c09DValWire(c *c09Case, v reflect.Value) string {
	switch c.Dest {
	case "map:str", "map:iface", "map:strs":
		if v.IsNil() {
			return "1 1 0"
		}
		d := map[string][]string{}
		for _, k := range v.MapKeys() {
			e := v.MapIndex(k)
			switch x := e.Interface().(type) {
			case string:
				d[k.String()] = []string{x}
			case []string:
				d[k.String()] = x
			default:
				d[k.String()] = []string{fmt.Sprint(x)}
			}
		}
		return "1 0 " + c09DataWire(d)
	case "map:int", "nonstruct":
		return "2"
	}
	return "0 " + c09ValsWire(v)
}

// ---------- initial values ----------

func c09Fill(r *rand.Rand, v reflect.Value) {
	t := v.Type()
	if !v.CanSet() {
		return
	}
	words := []string{"init", "old", "", "zz", "7"}
	switch {
	case t == c08UnmT:
		v.Set(reflect.ValueOf(c08Unm{V: words[r.Intn(len(words))]}))
	case t == c08TextT:
		v.Set(reflect.ValueOf(c08Text{V: words[r.Intn(len(words))]}))
	case t == c08MultiT:
		if r.Intn(2) == 0 {
			v.Set(reflect.ValueOf(c08Multi{V: []string{words[r.Intn(len(words))], "init"}[:1+r.Intn(2)]}))
		}
	case t == c09FilePlainT:
		if r.Intn(2) == 0 {
			v.Set(reflect.ValueOf(multipart.FileHeader{Filename: "old.txt"}))
		}
	case t == c09FilePtrT:
		if r.Intn(2) == 0 {
			v.Set(reflect.ValueOf(&multipart.FileHeader{Filename: "old.txt"}))
		}
	case t == c09FilePtrSliceT:
		if r.Intn(2) == 0 {
			v.Set(reflect.ValueOf([]*multipart.FileHeader{{Filename: "old1"}, {Filename: "old2"}}[:r.Intn(3)]))
		}
	case t == c09FileSliceT:
		if r.Intn(2) == 0 {
			v.Set(reflect.ValueOf([]multipart.FileHeader{{Filename: "old1"}, {Filename: "old2"}}[:r.Intn(3)]))
		}
	case t.Kind() == reflect.Struct:
		for i := 0; i < v.NumField(); i++ {
			c09Fill(r, v.Field(i))
		}
	case t.Kind() == reflect.Ptr && (t.Elem().Kind() == reflect.Struct || c09ScalarKind(t.Elem())):
		if r.Intn(2) == 0 {
			v.Set(reflect.New(t.Elem()))
			c09Fill(r, v.Elem())
		}
	case t.Kind() == reflect.Slice && c09ScalarKind(t.Elem()):
		if r.Intn(2) == 0 {
			n := r.Intn(3)
			s := reflect.MakeSlice(t, n, n)
			for i := 0; i < n; i++ {
				c09Fill(r, s.Index(i))
			}
			v.Set(s)
		}
	case t.Kind() == reflect.String:
		v.SetString(words[r.Intn(len(words))])
	case t.Kind() == reflect.Bool:
		v.SetBool(r.Intn(2) == 0)
	case t.Kind() >= reflect.Int && t.Kind() <= reflect.Int64:
		v.SetInt(int64(r.Intn(100) - 20))
	case t.Kind() >= reflect.Uint && t.Kind() <= reflect.Uint64:
		v.SetUint(uint64(r.Intn(100)))
	}
}

func c09NewDest(c *c09Case, t reflect.Type) reflect.Value {
	d := reflect.New(t)
	r := rand.New(rand.NewSource(c.InitSeed))
	switch t.Kind() {
	case reflect.Struct:
		c09Fill(r, d.Elem())
	case reflect.Map:
		if r.Intn(2) == 0 && (c.Dest == "map:str" || c.Dest == "map:iface" || c.Dest == "map:strs") {
			m := reflect.MakeMap(t)
			switch c.Dest {
			case "map:str":
				m.SetMapIndex(reflect.ValueOf("old"), reflect.ValueOf("init"))
			case "map:iface":
				m.SetMapIndex(reflect.ValueOf("old"), reflect.ValueOf("init"))
			case "map:strs":
				m.SetMapIndex(reflect.ValueOf("old"), reflect.ValueOf([]string{"init", "2"}))
			}
			d.Elem().Set(m)
		}
	}
	return d
}

// ---------- leaves (for the model-free oracle) ----------

type c09Leaf struct {
	Path    string
	Tags    map[string]string // own tags per source
	Reach   map[string]bool   // reachable by the walk for that source
	Kind    string            // one | nil | many | unm | other
	Vals    []string
	T       reflect.Type
	Present bool
	Anon    bool
}

// c09Leaves lists every leaf below v.  reach[src] = all ancestors are settable plain structs
// (or embedded non-nil pointers to structs) without a tag for src.
func c09Leaves(v reflect.Value, path string, reach map[string]bool, out *[]c09Leaf) {
	t := v.Type()
	for i := 0; i < t.NumField(); i++ {
		f := t.Field(i)
		fv := v.Field(i)
		p := path + "." + f.Name
		tags := map[string]string{}
		for _, s := range c09Sources {
			tags[s] = f.Tag.Get(s)
		}
		ft := f.Type
		special := ft == c08MultiT || c09FileKind(ft) >= 0
		isStruct := ft.Kind() == reflect.Struct && !c09IsUnm(ft) && !special
		isPtrStruct := ft.Kind() == reflect.Ptr && ft.Elem().Kind() == reflect.Struct && !c09IsUnm(ft.Elem()) && !special
		switch {
		case isStruct || isPtrStruct:
			inner := fv
			if isPtrStruct {
				if fv.IsNil() {
					nr := map[string]bool{}
					for _, s := range c09Sources {
						nr[s] = reach[s] && f.IsExported() && !f.Anonymous
					}
					*out = append(*out, c09Leaf{Path: p, Tags: tags, Reach: nr, Kind: "nilstruct", T: ft, Present: true})
					continue
				}
				inner = fv.Elem()
			}
			node := c09Leaf{Path: p, Tags: tags, Reach: map[string]bool{}, Kind: "node", T: ft, Present: true, Anon: f.Anonymous}
			sub := map[string]bool{}
			for _, s := range c09Sources {
				node.Reach[s] = reach[s] && f.IsExported()
				sub[s] = reach[s] && f.IsExported() && tags[s] == "" && (isStruct || f.Anonymous)
			}
			*out = append(*out, node)
			c09Leaves(inner, p, sub, out)
		default:
			lf := c09Leaf{Path: p, Tags: tags, Reach: map[string]bool{}, T: ft, Present: true}
			for _, s := range c09Sources {
				lf.Reach[s] = reach[s] && f.IsExported()
			}
			switch {
			case special:
				_, lf.Vals, lf.Kind = c09SpecialRO(fv)
			case c09IsUnm(ft):
				lf.Kind, lf.Vals = "one", []string{fv.Field(0).String()}
			case (ft.Kind() == reflect.Ptr || ft.Kind() == reflect.Slice) && c09ScalarKind(ft.Elem()), c09ScalarKind(ft):
				_, lf.Vals, lf.Kind = c09FValRO(c09LeafInfo(ft), fv)
			default:
				lf.Kind = "other"
				if fv.Kind() == reflect.Map || fv.Kind() == reflect.Interface || fv.Kind() == reflect.Ptr {
					if fv.IsNil() {
						lf.Vals = []string{"<nil>"}
					} else {
						lf.Vals = []string{"<set>"}
					}
				}
			}
			*out = append(*out, lf)
		}
	}
}

func c09CopyReach(m map[string]bool) map[string]bool {
	o := map[string]bool{}
	for k, v := range m {
		o[k] = v
	}
	return o
}

func c09AllReach() map[string]bool {
	return map[string]bool{"param": true, "query": true, "form": true, "header": true}
}

func c09LeafEq(a, b c09Leaf) bool {
	if a.Kind != b.Kind || len(a.Vals) != len(b.Vals) {
		return false
	}
	for i := range a.Vals {
		if a.Vals[i] != b.Vals[i] {
			return false
		}
	}
	return true
}

// keys of d equal to tag under case folding; exact = an identical key exists (then it is the
// only candidate); otherwise every fold-equal key is a candidate (Go map order picks one)
func c09Match(d map[string][]string, tag string) (vals []string, n int, exact bool) {
	c := c09Candidates(d, tag)
	if len(c) == 0 {
		return nil, 0, false
	}
	_, exact = d[tag]
	return c[0], len(c), exact
}

func c09Candidates(d map[string][]string, tag string) [][]string {
	if v, ok := d[tag]; ok {
		return [][]string{v}
	}
	var keys []string
	for k := range d {
		if strings.EqualFold(k, tag) {
			keys = append(keys, k)
		}
	}
	sort.Strings(keys)
	var out [][]string
	for _, k := range keys {
		out = append(out, d[k])
	}
	return out
}

func c09FoldAmbiguous(d map[string][]string) bool {
	keys := make([]string, 0, len(d))
	for k := range d {
		keys = append(keys, k)
	}
	for i := range keys {
		for j := i + 1; j < len(keys); j++ {
			if strings.EqualFold(keys[i], keys[j]) {
				return true
			}
		}
	}
	return false
}

func c09ASCII(d map[string][]string) bool {
	for k := range d {
		for i := 0; i < len(k); i++ {
			if k[i] >= 0x80 {
				return false
			}
		}
	}
	return true
}

func c09KVMap(l []c09KV, single bool) map[string][]string {
	m := map[string][]string{}
	for _, kv := range l {
		if len(kv.V) == 0 {
			continue
		}
		if single {
			m[kv.K] = kv.V[:1]
		} else {
			m[kv.K] = append(m[kv.K], kv.V...)
		}
	}
	return m
}

// ---------- building the request ----------

func c09Request(c *c09Case) (*http.Request, string) {
	target := "/"
	if rq := c09RawQuery(c); rq != "" {
		target += "?" + rq
	}
	method := c.Method
	if method == "" {
		method = http.MethodGet
	}
	var body []byte
	ctype := c.CType
	switch c.BodyKind {
	case "raw":
		body = []byte(c.Body)
	case "form":
		body = []byte(url.Values(c09KVMap(c.Form, false)).Encode())
	case "multipart":
		var buf bytes.Buffer
		mw := multipart.NewWriter(&buf)
		bnd := c.Boundary
		if bnd == "" {
			bnd = "c09boundary"
		}
		mw.SetBoundary(bnd)
		for _, kv := range c.Form {
			for _, v := range kv.V {
				mw.WriteField(kv.K, v)
			}
		}
		for _, kv := range c.Files {
			for _, name := range kv.V {
				if w, err := mw.CreateFormFile(kv.K, name); err == nil {
					w.Write([]byte("content of " + name))
				}
			}
		}
		mw.Close()
		body = buf.Bytes()
		if c.Truncate > 0 && c.Truncate < len(body) {
			body = body[:len(body)-c.Truncate]
		}
	}
	lenMode := c.LenMode
	if lenMode == "server" {
		lenMode = "chunked" // what the handler of a real server sees (used when the case cannot go through the server)
	}
	req := verifBodyRequest(method, target, body, lenMode)
	if ctype != "" {
		req.Header.Set(echo.HeaderContentType, ctype)
	}
	for k, v := range c09HeaderMap(c) {
		req.Header[k] = v
	}
	return req, string(body)
}

// the query string as it is sent
func c09RawQuery(c *c09Case) string {
	return url.Values(c09KVMap(c.Query, false)).Encode() + c.RawTail
}

// what URL.Query() yields (malformed pairs are dropped) and whether the whole string parses
func c09QueryOf(c *c09Case) (map[string][]string, bool) {
	if c.RawTail == "" {
		return c09KVMap(c.Query, false), true
	}
	vals, err := url.ParseQuery(c09RawQuery(c))
	return map[string][]string(vals), err == nil
}

func c09Context(c *c09Case) echo.Context {
	e := echo.New()
	switch c.Serial {
	case "raw":
		e.JSONSerializer = verifRawJSON{}
	case "strict":
		e.JSONSerializer = verifRawJSON{strict: true}
	}
	if c.Binder == "delegate" {
		e.Binder = verifDelegatingBinder{}
	}
	req, _ := c09Request(c)
	ctx := e.NewContext(req, httptest.NewRecorder())
	if len(c.Params) > 0 {
		var names, values []string
		for _, kv := range c.Params {
			if len(kv.V) > 0 {
				names = append(names, kv.K)
				values = append(values, kv.V[0])
			}
		}
		ctx.SetParamNames(names...)
		ctx.SetParamValues(values...)
	}
	return ctx
}

func c09ParamMap(c *c09Case) map[string][]string {
	m := map[string][]string{}
	for _, kv := range c.Params {
		if len(kv.V) > 0 {
			m[kv.K] = []string{kv.V[0]} // later duplicates overwrite
		}
	}
	return m
}

func c09HeaderMap(c *c09Case) map[string][]string {
	m := map[string][]string{}
	for _, kv := range c.Header {
		if len(kv.V) > 0 {
			k := kv.K
			if !c.RawHdr {
				k = http.CanonicalHeaderKey(k)
			}
			m[k] = append(m[k], kv.V...)
		}
	}
	return m
}

func c09ErrCode(err error) string {
	if err == nil {
		return "0"
	}
	var he *echo.HTTPError
	if errors.As(err, &he) {
		return fmt.Sprint(he.Code)
	}
	return "err"
}

// what the body decoders leave behind, computed with the standard library on a destination that
// went through the path and query steps of the real binder
func c09Decoded(c *c09Case, t reflect.Type, kind string) (out string) {
	defer func() {
		if p := recover(); p != nil {
			out = "0 2"
		}
	}()
	ctx := c09Context(c)
	d := c09NewDest(c, t)
	bd := &echo.DefaultBinder{}
	if c.Op != "body" && bd.BindPathParams(ctx, d.Interface()) != nil {
		return "0 2"
	}
	m := ctx.Request().Method
	if c.Op != "body" && (m == http.MethodGet || m == http.MethodDelete || m == http.MethodHead) {
		if bd.BindQueryParams(ctx, d.Interface()) != nil {
			return "0 2"
		}
	}
	_, body := c09Request(c)
	var err error
	if kind == "json" {
		dec := json.NewDecoder(strings.NewReader(body))
		if c.Serial == "strict" {
			dec.DisallowUnknownFields()
		}
		err = dec.Decode(d.Interface())
	} else {
		err = xml.NewDecoder(strings.NewReader(body)).Decode(d.Interface())
	}
	return wBool(err == nil) + " " + c09DValWire(c, d.Elem())
}

// c09RefDecodes: does the strict decoder of the standard library accept these bytes for a destination of this type
// (fresh value; no path / query step before — which key of a fold-ambiguous key set those steps pick is up to Go's map
// order, the verdict on the document must not depend on it)
func c09RefDecodes(c *c09Case, t reflect.Type, kind, body string) (ok bool) {
	defer func() {
		if p := recover(); p != nil {
			ok = false
		}
	}()
	d := c09NewDest(c, t)
	if kind == "json" {
		dec := json.NewDecoder(strings.NewReader(body))
		if c.Serial == "strict" {
			dec.DisallowUnknownFields()
		}
		return dec.Decode(d.Interface()) == nil
	}
	return xml.NewDecoder(strings.NewReader(body)).Decode(d.Interface()) == nil
}

func c09OptData(d map[string][]string, ok bool) string {
	if !ok {
		return "0"
	}
	return "1 " + c09DataWire(d)
}

// ---------- run ----------

// the multipart body as the standard library parses it (what echo's c.MultipartForm() gets)
func c09ParseMultipart(c *c09Case) (vals, files map[string][]string, ok bool) {
	defer func() {
		if p := recover(); p != nil {
			vals, files, ok = nil, nil, false
		}
	}()
	req, _ := c09Request(c)
	if err := req.ParseMultipartForm(32 << 20); err != nil || req.MultipartForm == nil {
		return nil, nil, false
	}
	vals, files = map[string][]string{}, map[string][]string{}
	for k, v := range req.MultipartForm.Value {
		vals[k] = append([]string(nil), v...)
	}
	for k, fhs := range req.MultipartForm.File {
		for _, fh := range fhs {
			files[k] = append(files[k], fh.Filename)
		}
	}
	return vals, files, true
}

// entries of a map destination, canonical
func c09MapEntries(v reflect.Value) map[string]string {
	out := map[string]string{}
	if v.Kind() != reflect.Map || v.IsNil() {
		return out
	}
	for _, k := range v.MapKeys() {
		out[k.String()] = fmt.Sprint(v.MapIndex(k).Interface())
	}
	return out
}

// c09ExpandJunk: the case with its Junk keys written out
func c09ExpandJunk(c *c09Case) *c09Case {
	d := *c
	d.Junk = 0
	junk := make([]c09KV, 0, c.Junk)
	for i := 0; i < c.Junk; i++ {
		junk = append(junk, c09KV{K: fmt.Sprintf("junk-%04d", i), V: []string{"j"}})
	}
	switch {
	case c.Op == "param":
		d.Params = append(junk, c.Params...)
	case c.Op == "header":
		d.Header = append(junk, c.Header...)
	case c.Op != "query" && (c.BodyKind == "form" || c.BodyKind == "multipart"):
		d.Form = append(junk, c.Form...)
	default:
		d.Query = append(junk, c.Query...)
	}
	return &d
}

func c09Run(ci any) (res Result) {
	c := ci.(*c09Case)
	if c.Junk > 0 {
		c = c09ExpandJunk(c)
	}
	t, err := c09DestType(c)
	if err != nil {
		return Result{Tags: []string{"bad-spec"}}
	}
	var tags []string
	oracle := ""
	fail := func(format string, a ...any) {
		if oracle == "" {
			oracle = fmt.Sprintf(format, a...)
		}
	}
	if len(c.Warm) > 0 {
		tags = append(tags, fmt.Sprintf("warm-up:%d", len(c.Warm)))
		if p := c09RunWarm(c, t); p != "" {
			return Result{Obs: "panic", Oracle: p, Tags: tags, Nontrivial: true}
		}
	}
	ctx := c09Context(c)
	dst := c09NewDest(c, t)
	isStruct := t.Kind() == reflect.Struct
	var before []c09Leaf
	if isStruct {
		c09Leaves(dst.Elem(), "", c09AllReach(), &before)
	}
	initWire := c09DValWire(c, dst.Elem())
	initMap := c09MapEntries(dst.Elem())

	params := c09ParamMap(c)
	query, queryOK := c09QueryOf(c)
	header := c09HeaderMap(c)
	req := ctx.Request()
	method := req.Method
	gdh := method == http.MethodGet || method == http.MethodDelete || method == http.MethodHead
	hasBody := req.ContentLength != 0
	isBind := c.Op == "bind"
	bodyStep := c.Op == "bind" || c.Op == "body"

	var berr error
	panicked := ""
	served := false
	if c.Serial != "" || c.Binder != "" {
		tags = append(tags, "app-parts:"+c.Serial+"/"+c.Binder)
	}
	if c.LenMode == "server" && c.Serial == "" && c.Binder == "" && bodyStep && len(c.Params) == 0 && len(c.Header) == 0 &&
		(method == "GET" || method == "POST" || method == "PUT" || method == "PATCH" || method == "DELETE") {
		// the same request over a real connection, body uploaded without a declared length
		_, bodyStr := c09Request(c)
		var body []byte
		if c.BodyKind != "" && c.BodyKind != "none" {
			body = []byte(bodyStr)
		}
		target := "/"
		if rq := c09RawQuery(c); rq != "" {
			target += "?" + rq
		}
		hdr := http.Header{}
		if c.CType != "" {
			hdr.Set(echo.HeaderContentType, c.CType)
		}
		served = verifServe(method, target, body, hdr, func(sc echo.Context) {
			defer func() {
				if p := recover(); p != nil {
					panicked = fmt.Sprint(p)
				}
			}()
			hasBody = sc.Request().ContentLength != 0
			if c.Op == "body" {
				berr = (&echo.DefaultBinder{}).BindBody(sc, dst.Interface())
			} else {
				berr = sc.Bind(dst.Interface())
			}
		})
		if served {
			tags = append(tags, "len:server")
		}
	}
	if c.LenMode != "" && !served {
		m := c.LenMode
		if m == "server" {
			m = "chunked"
		}
		tags = append(tags, "len:"+m)
	}
	func() {
		if served {
			return
		}
		defer func() {
			if p := recover(); p != nil {
				panicked = fmt.Sprint(p)
			}
		}()
		bd := &echo.DefaultBinder{}
		switch c.Op {
		case "param":
			berr = bd.BindPathParams(ctx, dst.Interface())
		case "query":
			berr = bd.BindQueryParams(ctx, dst.Interface())
		case "header":
			berr = bd.BindHeaders(ctx, dst.Interface())
		case "body":
			berr = bd.BindBody(ctx, dst.Interface())
		default:
			berr = ctx.Bind(dst.Interface())
		}
	}()
	tags = append(tags, "op:"+c.Op, "dest:"+strings.SplitN(c.Dest, ":", 2)[0])
	if panicked != "" {
		return Result{Obs: "panic", Oracle: "binding panicked: " + panicked, Tags: tags, Nontrivial: true}
	}
	code := c09ErrCode(berr)
	tags = append(tags, "status:"+code)
	if code != "0" && code != "400" && code != "415" {
		fail("binding error is neither 400 nor 415: %v", berr)
	}
	if berr != nil {
		func() { // rendering the error must not panic either
			defer func() {
				if p := recover(); p != nil {
					fail("Error() of the binding error panicked: %v", p)
				}
			}()
			_ = berr.Error()
		}()
	}

	// ---- model line
	destWire := c09DestWire(c, t)
	modelOK := true
	var line string
	// body answers (computed with the standard library on the same request)
	formBody, formOK := map[string][]string{}, true
	mpBody, mpFiles, mpOK := map[string][]string{}, map[string][]string{}, false
	_, bodyStr := c09Request(c)
	if bodyStep {
		if vals, perr := url.ParseQuery(bodyStr); perr == nil {
			formBody = vals
		} else {
			formOK = false
		}
		if v, f, ok := c09ParseMultipart(c); ok {
			mpBody, mpFiles, mpOK = v, f, true
		}
	}
	switch c.Op {
	case "param":
		line = wJoin(destWire, initWire, "0", "0", c09DataWire(params))
		modelOK = c09ASCII(params) && !c09FoldAmbiguous(params)
	case "query":
		line = wJoin(destWire, initWire, "0", "1", c09DataWire(query))
		modelOK = c09ASCII(query) && !c09FoldAmbiguous(query)
	case "header":
		line = wJoin(destWire, initWire, "0", "3", c09DataWire(header))
		modelOK = c09ASCII(header) && !c09FoldAmbiguous(header)
	default:
		kind := "1"
		if c.Op == "body" {
			kind = "2"
		}
		line = wJoin(destWire, initWire, kind, wStr(method), c09DataWire(params), c09DataWire(query), wBool(hasBody), wStr(c.CType),
			c09Decoded(c, t, "json"), c09Decoded(c, t, "xml"), c09OptData(formBody, formOK), c09OptData(mpBody, mpOK), c09DataWire(mpFiles), wBool(queryOK))
		merged := map[string][]string{}
		for k, v := range formBody {
			merged[k] = v
		}
		for k, v := range query {
			merged[k] = append(merged[k], v...)
		}
		for k, v := range mpBody {
			merged[k] = append(merged[k], v...)
		}
		modelOK = c09ASCII(params) && c09ASCII(merged) && c09ASCII(mpFiles) && !c09FoldAmbiguous(params) && !c09FoldAmbiguous(query) && !c09FoldAmbiguous(merged)
		for i := 0; i < len(c.CType); i++ {
			if c.CType[i] >= 0x80 {
				modelOK = false
			}
		}
	}
	obs := code + " " + c09DValWire(c, dst.Elem())
	if !modelOK {
		line = ""
		tags = append(tags, "oracle-only")
	}

	// media type as the standard library sees it
	mt, _, mterr := mime.ParseMediaType(c.CType)
	if mterr != nil && errors.Is(mterr, mime.ErrInvalidMediaParameter) {
		mterr = nil
	}
	decodedBody := bodyStep && hasBody && mterr == nil && (mt == "application/json" || mt == "application/xml" || mt == "text/xml")
	formApplied := bodyStep && hasBody && mterr == nil && mt == "application/x-www-form-urlencoded"
	mpApplied := bodyStep && hasBody && mterr == nil && mt == "multipart/form-data"
	supported := decodedBody || formApplied || mpApplied
	bodyRead := method == http.MethodPost || method == http.MethodPut || method == http.MethodPatch
	// the data each source contributes, in the order they are applied
	srcData := map[string]map[string][]string{}
	var filesApplied, filesAny map[string][]string
	switch c.Op {
	case "param":
		srcData["param"] = params
	case "query":
		srcData["query"] = query
	case "header":
		srcData["header"] = header
	default:
		if isBind {
			srcData["param"] = params
			if gdh {
				srcData["query"] = query
			}
		}
		fd := map[string][]string{}
		if formApplied {
			if bodyRead {
				for k, v := range formBody {
					fd[k] = append(fd[k], v...)
				}
			}
			for k, v := range query {
				fd[k] = append(fd[k], v...)
			}
		}
		if mpApplied && mpOK {
			for k, v := range mpBody {
				fd[k] = append(fd[k], v...)
			}
			filesApplied = mpFiles
		}
		if hasBody {
			// whatever echo decides about the media type, only these keys can ever reach form tags
			all := map[string][]string{}
			for k, v := range formBody {
				all[k] = v
			}
			for k, v := range query {
				all[k] = append(all[k], v...)
			}
			for k, v := range mpBody {
				all[k] = append(all[k], v...)
			}
			srcData["form-any"] = all
			filesAny = mpFiles
		}
		srcData["form"] = fd
	}
	if len(mpFiles) > 0 {
		tags = append(tags, "multipart-files")
	}
	if c.Truncate > 0 || (c.Boundary != "" && c.BodyKind == "multipart") {
		tags = append(tags, "multipart-damaged")
	}

	// ---- model-free oracle
	nontrivial := false
	if n := len(params) + len(query) + len(header) + len(formBody) + len(mpBody); n > 256 {
		tags = append(tags, "many-keys:257+")
		if n > 1024 {
			tags = append(tags, "many-keys:1025+")
		}
	}
	if len(c.Header) > 0 && bodyStep {
		tags = append(tags, "bind-with-headers") // Bind / BindBody never look at header data
	}
	if c.RawHdr && len(c.Header) > 0 {
		tags = append(tags, "header:raw-names")
	}
	if decodedBody {
		// malformed input is a 400 whoever decodes it and under whichever spelling of the media type:
		// a document that the (strict) decoder of the standard library rejects must not be accepted,
		// wholly or — worse — up to the defect
		kind := "xml"
		if mt == "application/json" {
			kind = "json"
		}
		tags = append(tags, "decoded:"+mt)
		if !c09RefDecodes(c, t, kind, bodyStr) {
			tags = append(tags, "decoded-malformed:"+kind)
			nontrivial = true
			if berr == nil {
				fail("%s body %q (Content-Type %q): encoding/%s rejects it (malformed, or not a document for this destination) but binding returned no error", kind, c09Clip(bodyStr), c.CType, kind)
			}
		}
	}
	if isStruct {
		var after []c09Leaf
		c09Leaves(dst.Elem(), "", c09AllReach(), &after)
		afterBy := map[string]c09Leaf{}
		for _, l := range after {
			afterBy[l.Path] = l
		}
		anyMalformed := false // some reachable tagged field can only receive a malformed value
		mayMalformed := false // … may receive one (several keys equal under folding)
		nearMiss := false
		for _, b := range before {
			a, ok := afterBy[b.Path]
			if b.Kind == "nilstruct" || b.Kind == "node" {
				continue
			}
			if !ok {
				if !decodedBody {
					fail("leaf %s disappeared", b.Path)
				}
				continue
			}
			if decodedBody {
				continue // encoding/json|xml follow their own rules
			}
			fileKind := c09FileKind(b.T)
			// (1) may this leaf change at all?
			mayChange := false
			for _, s := range c09Sources {
				d := srcData[s]
				if s == "form" && srcData["form-any"] != nil {
					d = srcData["form-any"]
				}
				if d == nil || b.Tags[s] == "" || !b.Reach[s] {
					continue
				}
				if _, n, _ := c09Match(d, b.Tags[s]); n > 0 {
					mayChange = true
				} else if c09NearMissKey(d, b.Tags[s]) {
					nearMiss = true
				} else if c09SeparatorMissKey(d, b.Tags[s]) {
					nearMiss = true
					tags = append(tags, "separator-variant-key:"+s)
				}
			}
			// uploaded files reach a file field only under the exact name of its form tag
			if fileKind >= 0 && b.Tags["form"] != "" && b.Reach["form"] && len(filesAny[b.Tags["form"]]) > 0 {
				mayChange = true
			}
			if !mayChange {
				if !c09LeafEq(a, b) {
					fail("leaf %s (tags %v) changed from %v to %v although no applied source carries a key equal to one of its tags", b.Path, b.Tags, b.Vals, a.Vals)
				}
				continue
			}
			nontrivial = true
			if b.Kind == "other" {
				continue
			}
			// (2a) multipart file fields
			if fileKind >= 0 {
				formTag := b.Tags["form"]
				fileSrc := len(filesApplied) > 0 && formTag != "" && b.Reach["form"]
				fileHit := fileSrc && fileKind != 3 && len(filesApplied[formTag]) > 0
				if fileSrc && fileKind == 3 {
					// plain multipart.FileHeader with a form tag: echo rejects the request as soon as it
					// carries files.  The property does not demand that; it is checked through the model only.
					tags = append(tags, "file:plain-with-files")
				}
				for _, s := range c09Sources {
					d := srcData[s]
					if d == nil || b.Tags[s] == "" || !b.Reach[s] || (s == "form" && fileHit) {
						continue
					}
					if len(c09Candidates(d, b.Tags[s])) > 0 {
						anyMalformed, mayMalformed = true, true // a text for a file field is always an error
						tags = append(tags, "file:text-for-file-field")
					}
				}
				if berr == nil && fileHit {
					tags = append(tags, fmt.Sprintf("file:set-kind%d", fileKind))
					names := filesApplied[formTag]
					wantKind := "many"
					if fileKind == 0 {
						names, wantKind = names[:1], "one"
					}
					if a.Kind != wantKind || !c08Same(a.Vals, false, names, false) {
						fail("file field %s: the request carries files %v under %q, the field holds %v (%s)", b.Path, filesApplied[formTag], formTag, a.Vals, a.Kind)
					}
				}
				continue
			}
			// (2b) precedence / exactness for scalar, slice and multi-value leaves when nothing failed
			info := c09LeafInfo(b.T)
			want, have := b.Vals, false
			wantKind := b.Kind
			ambiguous := false
			for _, s := range []string{"param", "query", "form", "header"} {
				d := srcData[s]
				if d == nil || b.Tags[s] == "" || !b.Reach[s] {
					continue
				}
				cands := c09Candidates(d, b.Tags[s])
				if len(cands) == 0 {
					continue
				}
				if len(cands) > 1 {
					ambiguous = true
				}
				allBad := true
				var dens []string
				for ci, vals := range cands {
					use := vals
					if info.Wrap != 2 {
						use = vals[:1]
					}
					bad := false
					var dn []string
					for _, x := range use {
						y, ok := c08Denote(info.Fam, info.E, c08StructDefault(info.Fam, x))
						if !ok {
							bad = true
						}
						dn = append(dn, y)
					}
					if bad {
						mayMalformed = true
					} else {
						allBad = false
					}
					if ci == 0 {
						dens = dn
					}
				}
				if allBad {
					anyMalformed = true
				}
				want, have = dens, true
				wantKind = "one"
				if info.Wrap == 2 {
					wantKind = "many"
				}
			}
			if berr == nil && have && b.T == c08MultiT {
				tags = append(tags, "multi-unmarshaler-set")
			}
			if berr == nil && have && !ambiguous && !mayMalformed {
				if a.Kind != wantKind || !c08Same(a.Vals, false, want, false) {
					fail("leaf %s: the last applied source carrying its tag gives %v, the field holds %v (%s)", b.Path, want, a.Vals, a.Kind)
				}
			}
		}
		if nearMiss {
			tags = append(tags, "near-miss-key")
		}
		// (3) never silent
		if berr == nil && anyMalformed {
			fail("a reachable tagged field received a malformed value but Bind returned no error")
		}
		// (4) unsupported media type
		if bodyStep && hasBody && !supported {
			tags = append(tags, "unsupported-media")
			if berr == nil {
				fail("non-empty body of unsupported type %q was accepted", c.CType)
			} else if code != "415" && !(code == "400" && mayMalformed) && !(code == "400" && c09HasStructuralError(before, srcData)) {
				fail("non-empty body of unsupported type %q: got %s, want 415", c.CType, code)
			}
		}
		// (5) a body that its own media type cannot parse is malformed input
		if (mpApplied && !mpOK) || (formApplied && bodyRead && !formOK) {
			tags = append(tags, "body-unparsable")
		}
		if !queryOK {
			tags = append(tags, "query-unparsable")
			// a form / multipart step parses the URL query too (ParseForm): malformed input, 400
			if berr == nil && (formApplied || mpApplied) {
				fail("form step on a request whose URL query does not parse (%q) was accepted", c09RawQuery(c))
			}
		}
		if berr == nil && !decodedBody {
			if mpApplied && !mpOK {
				fail("multipart body that mime/multipart rejects was accepted")
			}
			if formApplied && bodyRead && !formOK {
				fail("urlencoded body that url.ParseQuery rejects was accepted")
			}
		}
		if formApplied {
			tags = append(tags, "form-body")
		}
		if decodedBody {
			tags = append(tags, "decoded-body")
		}
	} else {
		// maps and non-struct destinations: entries already there survive, every applied source
		// adds / overrides exactly the keys it carries (keys are compared exactly), in the order
		// path, query (GET/DELETE/HEAD), form body
		switch c.Dest {
		case "map:str", "map:iface", "map:strs":
			render := func(v []string) string {
				if c.Dest == "map:strs" {
					return fmt.Sprint(v)
				}
				return v[0]
			}
			expected := map[string]string{}
			for k, v := range initMap {
				expected[k] = v
			}
			applied := 0
			for _, s := range []string{"param", "query", "form", "header"} {
				d := srcData[s]
				if len(d) > 0 {
					applied++
				}
				for k, v := range d {
					if len(v) > 0 {
						expected[k] = render(v)
					}
				}
			}
			bodyBad := (mpApplied && !mpOK) || (formApplied && bodyRead && !formOK) || ((formApplied || mpApplied) && !queryOK)
			if berr == nil && !decodedBody && !bodyBad {
				got := c09MapEntries(dst.Elem())
				for k, want := range expected {
					g, ok := got[k]
					if !ok {
						fail("map destination misses key %q (held before or carried by an applied source)", k)
					} else if g != want {
						fail("map destination: key %q holds %s, want %s (last applied source carrying it)", k, g, want)
					}
				}
				for k := range got {
					if _, ok := expected[k]; !ok {
						fail("map destination holds key %q that no applied source carries", k)
					}
				}
				nontrivial = applied > 0
				if applied > 1 {
					tags = append(tags, "map-multi-source")
				}
				if applied > 0 && len(initMap) > 0 {
					tags = append(tags, "map-prepopulated")
				}
			}
			if bodyStep && hasBody && !supported && berr == nil {
				fail("non-empty body of unsupported type %q was accepted", c.CType)
			}
		}
	}
	return Result{Ops: line, Obs: obs, Oracle: oracle, Tags: tags, Nontrivial: nontrivial}
}

func c09Clip(s string) string {
	if len(s) > 160 {
		return s[:160] + "…"
	}
	return s
}

// some key of d is not equal to tag under folding but contains it (tag plus an affix such as
// `[]`, `.`, a space, a prefix)
func c09NearMissKey(d map[string][]string, tag string) bool {
	lt := strings.ToLower(tag)
	for k := range d {
		if !strings.EqualFold(k, tag) && strings.Contains(strings.ToLower(k), lt) {
			return true
		}
	}
	return false
}

// a 400 can also come from the shape itself: a tagged embedded struct (whenever the source has
// data), or a tagged struct / pointer-to-struct / map / interface field whose key is present
func c09HasStructuralError(leaves []c09Leaf, srcData map[string]map[string][]string) bool {
	for _, s := range []string{"param", "query"} {
		d := srcData[s]
		if len(d) == 0 {
			continue
		}
		for _, l := range leaves {
			if l.Tags[s] == "" || !l.Reach[s] {
				continue
			}
			isStructKind := l.T.Kind() == reflect.Struct || (l.Anon && l.T.Kind() == reflect.Ptr)
			if l.Kind == "node" && l.Anon && isStructKind {
				return true
			}
			if l.Kind == "node" || l.Kind == "nilstruct" || l.Kind == "other" || c09FileKind(l.T) >= 0 {
				if _, n, _ := c09Match(d, l.Tags[s]); n > 0 {
					return true
				}
			}
		}
	}
	return false
}
