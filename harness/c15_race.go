//go:build race

package main

// c15RaceBuild: this binary was built with the race detector (bin/check runs C15 a second time that way).  The run is
// there for the interleavings - every request of the case on its own goroutine through one middleware instance - and
// costs about eight times the plain run per case: fewer cases, more of them concurrent (see c15Gen).
const c15RaceBuild = true
