package main

// C20 — reverse routing and routing are inverse to each other.
// Real code: Echo.Add (+ Route.Name), Echo.Reverse, e.ServeHTTP.  Model: C20.reverse + Router.find.

import (
	"fmt"
	"math"
	"math/rand"
	"net/http"
	"net/http/httptest"
	"strconv"
	"strings"

	"github.com/labstack/echo/v4"
)

type c20Case struct {
	Routes []rRoute `json:"routes"`
	Idx    int      `json:"idx"`
	Args   []string `json:"args"`
	Warm   int      `json:"warm,omitempty"` // >0: Reverse is called once when only Routes[:Warm] are registered and named
}

func c20Run(ci any) Result {
	c := ci.(*c20Case)
	var cur rObs
	e := echo.New()
	e.Logger.SetOutput(nopWriter{})
	// Two ways of naming a route: an explicit Route.Name (looked up with Echo.Reverse), or the default name, which is
	// the handler function's name (looked up with Echo.URI / Echo.URL; the handlers are distinct top-level functions
	// then, so that the names are unique).
	byHandler := len(c.Routes) <= len(c20Handlers) && (c.Idx+len(c.Routes)+len(c.Args))%2 == 0
	name := func(i int) string { return fmt.Sprintf("route-%d", i) }
	// Where the routes are mounted: on the Echo instance, or in a group that has middleware (the group then also
	// registers its two catch-all RouteNotFound routes, which the expected table below contains as well).
	var reg rRegistrar = e
	routes := c.Routes
	inGroup := (c.Idx+2*len(c.Args)+len(c.Routes))%3 == 1
	for _, r := range c.Routes {
		if r.Method == routeNotFound {
			inGroup = false
		}
	}
	// ... or on the router of a host with an unusual name (reversed through that host's router, requested with that Host)
	onHost := ""
	if !inGroup && !byHandler && (c.Idx+len(c.Routes)+3*len(c.Args))%5 == 2 {
		onHost = "API.Example.com:8443"
		reg = e.Host(onHost)
	}
	if inGroup {
		reg = e.Group("/grp", func(next echo.HandlerFunc) echo.HandlerFunc { return func(ctx echo.Context) error { return next(ctx) } })
		routes = nil
		for _, r := range c.Routes {
			routes = append(routes, rRoute{Method: r.Method, Path: "/grp" + r.Path})
		}
		routes = append(routes, rRoute{Method: routeNotFound, Path: "/grp"}, rRoute{Method: routeNotFound, Path: "/grp/*"})
	}
	for i, r := range c.Routes {
		i := i
		if byHandler {
			reg.Add(r.Method, r.Path, c20Handlers[i])
		} else {
			rt := reg.Add(r.Method, r.Path, func(ctx echo.Context) error {
				cur.Kind = 'D'
				cur.Hid = i
				cur.PPath = ctx.Path()
				cur.Names = append([]string{}, ctx.ParamNames()...)
				cur.Values = append([]string{}, ctx.ParamValues()...)
				return ctx.NoContent(http.StatusOK)
			})
			rt.Name = name(i) // unique names: Reverse picks an arbitrary route among equal names
		}
		if c.Warm > 0 && i == c.Warm-1 {
			// reverse routing is used before the rest of the application is registered
			if byHandler {
				e.URI(c20Handlers[0], "w1", "w2", "w3")
				e.URL(c20Handlers[c.Idx], "w1")
			} else {
				e.Reverse(name(0), "w1", "w2", "w3")
				e.Reverse(name(c.Idx), "w1")
			}
		}
	}
	// a NAME TWIN on the same router: the target's pattern registered for another method under the same name (what
	// `e.Match([]string{GET, POST}, path, h)` or one named handler on several verbs produces).  Reverse may pick either
	// route of that name — both reverse to the same URL — and the request with the target's method must still reach the target.
	nameTwin := false
	if !byHandler && !inGroup && onHost == "" && (c.Idx+len(c.Routes))%2 == 0 && c.Idx < len(c.Routes) {
		tm := "PROPFIND"
		if c.Routes[c.Idx].Method == tm {
			tm = "REPORT"
		}
		free := c.Routes[c.Idx].Method != routeNotFound
		tkey := rTokKey(func() []rTok { t, _, _ := rNorm(c.Routes[c.Idx].Path); return t }())
		for _, r := range c.Routes {
			t2, _, _ := rNorm(r.Path)
			if r.Method == tm && rTokKey(t2) == tkey {
				free = false
			}
		}
		if free {
			nameTwin = true
			reg.Add(tm, c.Routes[c.Idx].Path, func(ctx echo.Context) error { return ctx.NoContent(http.StatusTeapot) }).Name = name(c.Idx)
			routes = append(append([]rRoute{}, routes...), rRoute{Method: tm, Path: c.Routes[c.Idx].Path})
		}
	}
	hostTwin := (c.Idx+len(c.Args))%3 == 0
	if hostTwin {
		// a host router carries routes with the SAME names (explicit names, or the same handler functions) under
		// other patterns: Echo.Reverse / URI / URL speak about the default router, and the request below is for
		// the default host
		hg := e.Host("twin.example")
		for i, r := range c.Routes {
			if byHandler {
				hg.Add(r.Method, "/twin"+strconv.Itoa(i)+"/:t1/:t2/:t3", c20Handlers[i])
			} else {
				hg.Add(r.Method, "/twin"+strconv.Itoa(i)+"/:t1/:t2/:t3", func(ctx echo.Context) error { return ctx.NoContent(http.StatusTeapot) }).Name = name(i)
			}
		}
	}
	if byHandler {
		e.Use(func(next echo.HandlerFunc) echo.HandlerFunc {
			return func(ctx echo.Context) error {
				ctx.Set("c20cur", &cur)
				return next(ctx)
			}
		})
	}
	e.Use(func(next echo.HandlerFunc) echo.HandlerFunc {
		return func(ctx echo.Context) error {
			err := next(ctx)
			cur.Path = ctx.Path()
			if inGroup && cur.Kind != 'D' && (ctx.Path() == "/grp" || ctx.Path() == "/grp/*") {
				// answered by one of the group's own catch-all routes (echo.NotFoundHandler cannot be
				// instrumented): that is a dispatch to the RouteNotFound entry of the expected table
				cur.Kind = 'D'
				cur.Hid = len(c.Routes)
				if ctx.Path() == "/grp/*" {
					cur.Hid++
				}
				cur.PPath = ctx.Path()
				cur.Names = append([]string{}, ctx.ParamNames()...)
				cur.Values = append([]string{}, ctx.ParamValues()...)
			}
			return err
		}
	})
	args := make([]interface{}, len(c.Args))
	for i, a := range c.Args {
		args[i] = a
		// applications pass numbers as numbers: Reverse formats every value with %v
		switch a {
		case "7":
			args[i] = int8(7)
		case "18446744073709551615":
			args[i] = uint64(math.MaxUint64)
		case "9223372036854775808":
			args[i] = uint64(1) << 63
		case "-9223372036854775808":
			args[i] = int64(math.MinInt64)
		case "4294967295":
			args[i] = uint32(math.MaxUint32)
		case "1.5":
			args[i] = 1.5
		case "true":
			args[i] = true
		}
	}
	var url string
	entryMismatch := ""
	if len(args) >= 2 {
		// the same route was reversed a moment ago with the SAME characters split differently between the values
		// (and with the values in reverse order): earlier calls must not influence this one
		a0, a1 := c.Args[0], c.Args[1]
		alt := append([]interface{}{}, args...)
		if len(a0) > 0 {
			alt[0], alt[1] = a0[:len(a0)-1], a0[len(a0)-1:]+a1
		} else if len(a1) > 0 {
			alt[0], alt[1] = a1[:1], a1[1:]
		}
		rev := make([]interface{}, len(args))
		for i := range args {
			rev[len(args)-1-i] = args[i]
		}
		if byHandler {
			e.URI(c20Handlers[c.Idx], alt...)
			e.URL(c20Handlers[c.Idx], rev...)
		} else {
			e.Reverse(name(c.Idx), alt...)
			e.Router().Reverse(name(c.Idx), rev...)
		}
	}
	if byHandler {
		url = e.URI(c20Handlers[c.Idx], args...)
		if u2 := e.URL(c20Handlers[c.Idx], args...); u2 != url {
			entryMismatch = fmt.Sprintf("Echo.URL gives %q, Echo.URI gives %q", u2, url)
		}
	} else {
		if onHost != "" {
			url = e.Routers()[onHost].Reverse(name(c.Idx), args...)
		} else {
			url = e.Reverse(name(c.Idx), args...)
			if u2 := e.Router().Reverse(name(c.Idx), args...); u2 != url {
				entryMismatch = fmt.Sprintf("Router.Reverse gives %q, Echo.Reverse gives %q", u2, url)
			}
		}
	}
	rt := routes[c.Idx]
	if (len(url)+c.Idx)%3 == 0 {
		// a (no-op) Pre middleware is installed: routing then happens inside the Pre chain
		e.Pre(func(next echo.HandlerFunc) echo.HandlerFunc { return func(ctx echo.Context) error { return next(ctx) } })
	}
	// the URL travels as a server would parse it: URL.Path decoded, URL.RawPath = the text as sent (when they differ)
	rServeRec(e, &cur, rReq{Method: rt.Method, Path: url, Raw: len(url)%2 == 0, Host: onHost, Parsed: (len(url)+c.Idx)%4 == 1})
	res := Result{
		Ops: wJoin(rTableWire(routes), wInt(c.Idx), wStrs(c.Args)),
		Obs: wJoin(wStr(url), cur.wire()),
	}
	toks, names, after := rNorm(rt.Path)
	tags := []string{}
	if inGroup {
		tags = append(tags, "routes-in-a-group-with-middleware")
	}
	if onHost != "" {
		tags = append(tags, "routes-on-a-host-router")
	}
	if hostTwin {
		tags = append(tags, "host-router-with-equal-names")
	}
	if nameTwin {
		tags = append(tags, "same-name-on-another-method-of-the-pattern")
	}
	if byHandler {
		tags = append(tags, "named-by-handler(URI/URL)")
	} else {
		tags = append(tags, "named-explicitly(Reverse)")
	}
	if entryMismatch != "" {
		res.Oracle = entryMismatch
	}
	if c.Warm > 0 && c.Warm < len(routes) {
		tags = append(tags, "reverse-before-later-registrations")
	}
	valid := !after && len(c.Args) == len(names) && rt.Method != routeNotFound
	k := 0
	escaped := strings.Contains(rt.Path, `\:`)
	for _, t := range toks {
		if t.kind == 'p' {
			if k < len(c.Args) && (c.Args[k] == "" || strings.Contains(c.Args[k], "/")) {
				valid = false
			}
			k++
		} else if t.kind == 'a' {
			k++
		}
	}
	if !valid {
		tags = append(tags, "out-of-scope-args")
	} else {
		tags = append(tags, "valid-args")
		if escaped {
			tags = append(tags, "escaped-colon")
		}
		// the URL is the pattern with the values substituted (escaped colons come out as literal colons)
		want, _ := rInst(toks, c.Args)
		if res.Oracle != "" {
		} else if url != want {
			res.Oracle = fmt.Sprintf("Reverse(%q, %q) = %q, want %q", rt.Path, c.Args, url, want)
		} else if !rColonClash(routes) {
			switch {
			case cur.Kind != 'D':
				res.Oracle = fmt.Sprintf("the reversed URL %q of %s %q is not dispatched: %s", url, rt.Method, rt.Path, cur.wire())
			case cur.Hid == c.Idx:
				if strings.Join(cur.Values, "\x00") != strings.Join(c.Args, "\x00") || len(cur.Values) != len(c.Args) {
					res.Oracle = fmt.Sprintf("route %q reversed with %q, dispatched back with values %q", rt.Path, c.Args, cur.Values)
				}
			case len(routes) == 1:
				res.Oracle = "single route table dispatched elsewhere"
			default:
				tags = append(tags, "another-route-has-priority")
			}
		}
		res.Nontrivial = len(c.Args) > 0
	}
	res.Tags = tags
	return res
}

// c20Handlers: distinct top-level functions, so that the default route names (the handler's function name) differ.
var c20Handlers = []echo.HandlerFunc{c20H0, c20H1, c20H2, c20H3, c20H4, c20H5, c20H6, c20H7}

func c20Record(ctx echo.Context, i int) error {
	cur := ctx.Get("c20cur").(*rObs)
	cur.Kind = 'D'
	cur.Hid = i
	cur.PPath = ctx.Path()
	cur.Names = append([]string{}, ctx.ParamNames()...)
	cur.Values = append([]string{}, ctx.ParamValues()...)
	return ctx.NoContent(http.StatusOK)
}
func c20H0(ctx echo.Context) error { return c20Record(ctx, 0) }
func c20H1(ctx echo.Context) error { return c20Record(ctx, 1) }
func c20H2(ctx echo.Context) error { return c20Record(ctx, 2) }
func c20H3(ctx echo.Context) error { return c20Record(ctx, 3) }
func c20H4(ctx echo.Context) error { return c20Record(ctx, 4) }
func c20H5(ctx echo.Context) error { return c20Record(ctx, 5) }
func c20H6(ctx echo.Context) error { return c20Record(ctx, 6) }
func c20H7(ctx echo.Context) error { return c20Record(ctx, 7) }

func rServeRec(e *echo.Echo, cur *rObs, q rReq) {
	*cur = cur.keep()
	defer func() {
		if r := recover(); r != nil {
			*cur = rObs{Kind: 'P', Panic: fmt.Sprint(r)}
		}
	}()
	rec := httptest.NewRecorder()
	e.ServeHTTP(rec, rNewRequest(q))
	cur.Status = rec.Code
	if cur.Kind == 'D' {
		return
	}
	switch {
	case rec.Code == http.StatusNotFound:
		cur.Kind = 'N'
	case rec.Code == http.StatusMethodNotAllowed, rec.Code == http.StatusNoContent && rec.Result().Header.Get("Allow") != "":
		cur.Kind = 'M'
		cur.Allow = splitAllow(rec.Result().Header.Get("Allow"))
	default:
		cur.Kind = '?'
	}
}

// named-parameter values: every one non-empty and without '/', so inside the property's quantifier.  c20Values: plain
// ones, numbers (passed as numbers), colons, percent signs, UTF-8, the table's own literals; c20ValuesRare: dots (the
// dot segments `.` and `..`, look-alikes of them, hidden-file names), percent-encoded dots, upper/lower case twins,
// characters that "path hardening" code tends to treat specially (`;` `~` space, a trailing dot, combining marks)
var c20Values = []string{"a", "ab", "7", "18446744073709551615", "9223372036854775808", "-9223372036854775808", "4294967295", "1.5", "true", "x.y", "a:b", ":", "%41", "%2F", "a%2Fb", "a%2fb%2F", "{x}", "a|b", "a+b", "a%00b", "\xc3\xa9", "a b", "*", "new", "users", "-", "a\\b"}
var c20ValuesRare = []string{".", "..", "...", ".hidden", "a..", "..a", "a.", "%2e", "%2E%2E", ".%2e", "A", "Ab", "USERS", "a;b", ";", "~a", "a%20b", "\xc3\x89", "e\xcc\x81"}

// wildcard values (arbitrary).  c20Wild: empty, slashes, a file path, colon, UTF-8; c20WildRare: slashes at either end
// and doubled, dot segments at the start / in the middle / at the end, percent-encoded ones, case twins
var c20Wild = []string{"", "a", "a/b", "/", "a/b/c.txt", "x:y", "%2e%2e", "\xc3\xa9/\xc3\xa9", "*", "//"}
var c20WildRare = []string{".", "..", "./main.css", "css/../main.css", "a/b/..", "a/./b", "../x", "a/..", "../..", "a/", "/a", "a//b", ".hidden/x", "a/.../b", "a/%2e%2e/b", "A/B", "a/b/.", "a/;x/b"}

// c20Pick: two thirds from the common list, one third from the rare one
func c20Pick(r *rand.Rand, common, rare []string) string {
	if r.Intn(3) == 0 {
		return rare[r.Intn(len(rare))]
	}
	return common[r.Intn(len(common))]
}

func c20Gen(r *rand.Rand, tier string) []any {
	tables, per := 600, 10
	if tier == "thorough" {
		tables, per = 8000, 16
	}
	var out []any
	for i := 0; i < tables; i++ {
		var routes []rRoute
		if r.Intn(2) == 0 {
			routes = []rRoute{{Method: "GET", Path: rGenPattern(r, rGenOpts{escaped: true})}}
			if r.Intn(3) == 0 {
				routes[0].Method = rMethods[r.Intn(len(rMethods)-1)]
			}
		} else {
			routes = rGenTable(r, rGenOpts{escaped: r.Intn(3) == 0, maxRoute: 6})
		}
		// literal segments (and tails) of the table's own patterns: values equal to them lead the reversed URL under
		// the static branches of OTHER routes, which is where "provided no other route takes priority" is decided
		var segs, tails []string
		for _, rt := range routes {
			parts := strings.Split(strings.Trim(rt.Path, "/"), "/")
			for i, sg := range parts {
				if sg != "" && !strings.ContainsAny(sg, ":*\\") {
					segs = append(segs, sg)
					tails = append(tails, strings.Join(parts[i:], "/"))
				}
			}
		}
		for k := 0; k < per; k++ {
			idx := r.Intn(len(routes))
			toks, _, _ := rNorm(routes[idx].Path)
			var args []string
			own := len(segs) > 0 && r.Intn(3) == 0
			for _, t := range toks {
				switch t.kind {
				case 'p':
					if own {
						args = append(args, segs[r.Intn(len(segs))])
					} else {
						args = append(args, c20Pick(r, c20Values, c20ValuesRare))
					}
				case 'a':
					if own {
						tl := tails[r.Intn(len(tails))]
						if strings.ContainsAny(tl, ":*") {
							tl = strings.NewReplacer(":", "", "*", "x").Replace(tl)
						}
						args = append(args, tl+[]string{"", "/42", "/a/b"}[r.Intn(3)])
					} else {
						args = append(args, c20Pick(r, c20Wild, c20WildRare))
					}
				}
			}
			switch r.Intn(12) {
			case 0:
				if len(args) > 0 {
					args = args[:len(args)-1] // too few
				}
			case 1:
				args = append(args, "extra")
			case 2:
				if len(args) > 0 {
					args[r.Intn(len(args))] = []string{"", "a/b"}[r.Intn(2)] // out of scope value
				}
			}
			cs := &c20Case{Routes: routes, Idx: idx, Args: args}
			if r.Intn(4) == 0 {
				cs.Routes, cs.Idx = c20Companions(r, routes, idx, args)
			}
			if len(cs.Routes) > 1 && r.Intn(4) == 0 {
				cs.Warm = 1 + r.Intn(len(cs.Routes)-1)
			}
			out = append(out, cs)
		}
	}
	return out
}

// c20Companions: routes that share text with the URL the case is about to produce, registered before or after the
// named route: the URL itself, a prefix of it followed by `*`, the URL plus a slash — for ANOTHER method (they never
// take priority for the route's method, but the search has to get past them) — and a shorter literal for the same
// method (it splits the nodes of the others).  Returns the new table and the new index of the named route.
func c20Companions(r *rand.Rand, routes []rRoute, idx int, args []string) ([]rRoute, int) {
	rt := routes[idx]
	toks, names, after := rNorm(rt.Path)
	if after || len(args) != len(names) {
		return routes, idx
	}
	url, ok := rInst(toks, args)
	if !ok || url == "" || strings.ContainsAny(url, ":*\\") {
		return routes, idx
	}
	other := []string{"POST", "PUT", "GET", "DELETE", "X-CUSTOM"}[r.Intn(5)]
	if other == rt.Method {
		other = "PATCH"
	}
	cut := func() string { // a prefix of the URL, mostly ending at a slash
		var at []int
		for i := 1; i < len(url); i++ {
			if url[i-1] == '/' {
				at = append(at, i)
			}
		}
		if len(at) > 0 && r.Intn(4) > 0 {
			return url[:at[r.Intn(len(at))]]
		}
		return url[:1+r.Intn(len(url))]
	}
	var before, behind []rRoute
	add := func(x rRoute) {
		if r.Intn(2) == 0 {
			before = append(before, x)
		} else {
			behind = append(behind, x)
		}
	}
	for k := 1 + r.Intn(3); k > 0; k-- {
		switch r.Intn(5) {
		case 0:
			add(rRoute{Method: other, Path: url})
		case 1, 2:
			add(rRoute{Method: other, Path: cut() + "*"})
		case 3:
			add(rRoute{Method: other, Path: url + "/"})
		default:
			p := cut()
			if len(p) > 1 && r.Intn(2) == 0 {
				p = p[:len(p)-1]
			}
			add(rRoute{Method: rt.Method, Path: p})
		}
	}
	// (no structurally identical duplicates: the tables of this property are without re-registrations)
	seen := map[string]bool{}
	for _, x := range routes {
		t, _, _ := rNorm(x.Path)
		seen[x.Method+" "+rTokKey(t)] = true
	}
	keep := func(l []rRoute) []rRoute {
		var o []rRoute
		for _, x := range l {
			t, _, _ := rNorm(x.Path)
			if k := x.Method + " " + rTokKey(t); !seen[k] {
				seen[k] = true
				o = append(o, x)
			}
		}
		return o
	}
	before, behind = keep(before), keep(behind)
	out := append(append(append([]rRoute{}, before...), routes...), behind...)
	if len(out) > len(c20Handlers) {
		return routes, idx
	}
	return out, idx + len(before)
}

func c20Shrink(ci any) []any {
	c := ci.(*c20Case)
	var out []any
	for i := range c.Routes {
		if i == c.Idx || len(c.Routes) <= 1 {
			continue
		}
		d := *c
		d.Routes = append(append([]rRoute(nil), c.Routes[:i]...), c.Routes[i+1:]...)
		if i < c.Idx {
			d.Idx--
		}
		if i < c.Warm {
			d.Warm--
		}
		out = append(out, &d)
	}
	for i, a := range c.Args {
		for _, s := range rShrinkString(a) {
			d := *c
			d.Args = append([]string(nil), c.Args...)
			d.Args[i] = s
			out = append(out, &d)
		}
	}
	return out
}

func c20Known(ci any, res Result, modelObs string) string {
	c := ci.(*c20Case)
	if rColonClash(c.Routes) {
		return "F2"
	}
	return ""
}

func init() {
	register(&Prop{
		ID:             "C20",
		Rule:           "half singleton tables, half random tables (patterns over literal text, :param, in-segment params, escaped colons, trailing `*`) x a named route x value lists of matching arity (unicode, dots, colons, percent signs, backslashes, empty and slash-containing wildcard values) plus a stream with too few / too many / out-of-scope values (model comparison only); the produced URL is requested with the route's method; non-trivial = in-scope case with at least one value; distinct = distinct model op lines",
		New:            func() any { return &c20Case{} },
		Gen:            c20Gen,
		Run:            c20Run,
		Shrink:         c20Shrink,
		Known:          c20Known,
		Correspondence: "C20.reverse + Router.find ∘ Router.build (lean/EchoModel/C20.lean) vs Echo.Reverse + Echo.ServeHTTP",
	})
}
