package main

// C18 — rate limiter.  Real code: middleware.RateLimiterMemoryStore (+ RateLimiterWithConfig
// over e.ServeHTTP) on a virtual clock injected through middleware.VerifSetClock.
// Model: lean/EchoModel/C18.lean (run).
//
// Two kinds of cases:
//   * Exact = true: rate k/2^j, every instant a multiple of 2^-9 s (1 953 125 ns).  On these
//     parameters the float64 arithmetic of golang.org/x/time/rate is exact, so the rational
//     model must agree decision by decision (tie) — in addition to the oracles.
//   * Exact = false: rate p/q (small q), arbitrary nanosecond instants.  Only the
//     model-free oracles are evaluated (no model comparison).
//
// Model-free oracles (the property itself, evaluated on what the real code did):
//   window       per identifier, every window of admitted requests: count <= burst + rate*d
//                (as stated: "window-noslack"; with the dependency's 1 ns: "window")
//   refusal      a request is refused only if some window ending at it is used up
//                (count so far + 1 > burst + rate*d)
//   independence the decisions for an identifier are unchanged when all other identifiers'
//                traffic is removed (the real store is re-run)
//   middleware   handler ran <=> Store.Allow returned true; refused => 429; extractor error
//                => 403 and no store call; skipped => handler ran and no store call

import (
	"errors"
	"fmt"
	"math/bits"
	"math/rand"
	"net/http"
	"net/http/httptest"
	"os"
	"sort"
	"strings"
	"sync"
	"time"

	"github.com/labstack/echo/v4"
	"github.com/labstack/echo/v4/middleware"
	"golang.org/x/time/rate"
)

const (
	c18Tick   = int64(1953125) // 2^-9 s in ns
	c18Second = int64(1000000000)
)

const (
	c18Direct = iota
	c18HTTP
	c18HTTPErr
	c18HTTPSkip
	c18DirectAt // Store.Allow from its own goroutine, possibly held before AllowN (skew cases)
)

type c18Ev struct {
	T    int64  `json:"t"`
	Kind int    `json:"k"`
	ID   string `json:"id"`
	// Hold (kind 4 only): the goroutine of this call is held between reading the clock for
	// AllowN and calling AllowN until `Hold` later calls have completed (0 = not held)
	Hold int `json:"hold,omitempty"`
	// Late (split cases, held calls): the goroutine is held BEFORE it reads the clock for AllowN, i.e. the
	// reading it hands to AllowN is the instant of its release, not the instant of its locked part
	Late bool `json:"late,omitempty"`
	// Nth (split cases, held calls): park in the Nth clock reading taken while the store mutex is free
	// (0 / 1 = the first one, the reading for AllowN in the code as it is; a call that never takes that
	// many unlocked readings simply runs to its end)
	Nth int `json:"nth,omitempty"`
	// R: the route the request takes, i.e. the chain of RateLimiter instances in front of the handler:
	// 0 = "/" [store 0]; 1 = "/g/x" [store 0 on the group, store 1 on the route]; 2 = "/b" [store 1];
	// 3 = "/ba" [store 1, store 0] (both on the route); 4 = "/aa" [store 0, store 0] (two instances
	// sharing one store).  Direct calls: 0 = store 0, 2 = store 1.
	R int `json:"r,omitempty"`
}

// c18SP: the parameters of one RateLimiterMemoryStore
type c18SP struct {
	RateNum   int64 `json:"rate_num"`
	RateDen   int64 `json:"rate_den"`
	Burst     int   `json:"burst"`      // as configured, 0 = default
	ExpiresIn int64 `json:"expires_in"` // ns as configured, 0 = default
	// Simple: built with NewRateLimiterMemoryStore(rate) (Burst and ExpiresIn must be 0)
	Simple bool `json:"simple,omitempty"`
}

type c18Case struct {
	RateNum   int64 `json:"rate_num"`
	RateDen   int64 `json:"rate_den"`
	Burst     int   `json:"burst"`      // as configured, 0 = default
	ExpiresIn int64 `json:"expires_in"` // ns as configured, 0 = default
	T0        int64 `json:"t0"`
	Exact     bool  `json:"exact"`
	DefaultID bool  `json:"default_extractor"` // DefaultRateLimiterConfig.IdentifierExtractor (RealIP)
	// CustomHandlers: 0 = default Deny/ErrorHandler; 1 = custom handlers that write their own
	// 429 / 403 response and return nil; 2 = custom handlers that return an *echo.HTTPError
	CustomHandlers int `json:"custom_handlers,omitempty"`
	// Simple: store 0 is built with NewRateLimiterMemoryStore(rate) (Burst and ExpiresIn must be 0)
	Simple bool `json:"simple,omitempty"`
	// S2: a second store in the same process (routes 1-3)
	S2 *c18SP `json:"s2,omitempty"`
	// Ctor: how the middleware instances are built: 0 = RateLimiterWithConfig with a Skipper
	// (X-Skip header); 1 = RateLimiter(store) (needs default_extractor, no custom handlers, no
	// skip / extractor-error events); 2 = RateLimiterWithConfig with a nil Skipper (no skip events)
	Ctor int `json:"ctor,omitempty"`
	// Before: the instances are configured with a BeforeFunc (counted)
	Before bool `json:"before,omitempty"`
	// Raw: the middleware instances get the *RateLimiterMemoryStore itself as their Store (every optional
	// capability the middleware may look for is visible), not the recording wrapper; what a store decided
	// for a request is then read off the response (every request path has exactly one limiter)
	Raw bool `json:"raw,omitempty"`
	// Many > 0: "many identifiers" case (oracle only, one store): 8 victims use up their burst at T0; then
	// Many other identifiers arrive one after the other (1 us apart, starting one second later), each with one
	// call; at checkpoints (table sizes 1000, 1024, 4096, 10000, 16384, 32768, 65535..65537, 100000, 131072, ...)
	// a victim that has not been seen since T0 (and victim 0, seen at every checkpoint) asks again burst+1 times
	Many int `json:"many,omitempty"`
	// NilStore: RateLimiterWithConfig without a Store: the constructor must panic (oracle only)
	NilStore bool `json:"nil_store,omitempty"`
	// Stress (frozen clock): StressG goroutines per identifier call Store.Allow at the same
	// time for StressIDs fresh identifiers; oracle only (at most burst admissions each)
	StressIDs int `json:"stress_ids,omitempty"`
	StressG   int `json:"stress_g,omitempty"`
	// StressIdle: before the goroutines are released every identifier spends its burst (one goroutine, at T0)
	// and the clock is moved on by StressIdle ns (> ExpiresIn: the first concurrent call sweeps); still at most
	// / exactly burst admissions per identifier at the frozen instant, whichever goroutine's locked part sweeps
	StressIdle int64 `json:"stress_idle,omitempty"`
	// Skew: all events are kind 4 (concurrent Store.Allow calls on a clock that is monotone in
	// start order; some goroutines are held before AllowN, so the limiter sees their clock
	// readings out of order: finding F19).  ExpiresIn is long enough that no sweep happens.
	Skew bool `json:"skew,omitempty"`
	// Split: like Skew (all events kind 4, goroutines held after Unlock), but ExpiresIn is SHORT: sweeps run
	// while goroutines are parked between their locked part and AllowN.  Compared with the split model
	// (C18.lockStep / C18.tailStep: the schedule of locked parts and tails as it was played) and checked
	// against the window / refusal oracles on the AllowN readings (see c18_split.go)
	Split bool    `json:"split,omitempty"`
	Evs   []c18Ev `json:"evs"`
}

func (p c18SP) effBurst() int64 {
	if p.Burst == 0 {
		return p.RateNum / p.RateDen
	}
	return int64(p.Burst)
}

func (p c18SP) effExpires() int64 {
	if p.ExpiresIn == 0 {
		return 180 * c18Second
	}
	return p.ExpiresIn
}

// ExpiresIn*rate >= burst
func (p c18SP) hexp() bool {
	// expires(ns) * num >= burst * den * 1e9
	return !mulLess(uint64(p.effExpires()), uint64(p.RateNum), uint64(p.effBurst()), uint64(p.RateDen*c18Second))
}

func (p c18SP) valid() bool {
	return p.RateDen > 0 && p.RateNum >= 0 && p.Burst >= 0 && p.ExpiresIn >= 0 && !(p.Simple && (p.Burst != 0 || p.ExpiresIn != 0))
}

func (p c18SP) build() *middleware.RateLimiterMemoryStore {
	lim := rate.Limit(float64(p.RateNum) / float64(p.RateDen))
	if p.Simple {
		return middleware.NewRateLimiterMemoryStore(lim)
	}
	return middleware.NewRateLimiterMemoryStoreWithConfig(middleware.RateLimiterMemoryStoreConfig{
		Rate: lim, Burst: p.Burst, ExpiresIn: time.Duration(p.ExpiresIn),
	})
}

// sp(0): the first store (the case's own fields)
func (c *c18Case) sp0() c18SP {
	return c18SP{RateNum: c.RateNum, RateDen: c.RateDen, Burst: c.Burst, ExpiresIn: c.ExpiresIn, Simple: c.Simple}
}

func (c *c18Case) stores() []c18SP {
	out := []c18SP{c.sp0()}
	if c.S2 != nil {
		out = append(out, *c.S2)
	}
	return out
}

func (c *c18Case) effBurst() int64   { return c.sp0().effBurst() }
func (c *c18Case) effExpires() int64 { return c.sp0().effExpires() }
func (c *c18Case) hexp() bool        { return c.sp0().hexp() }

var c18Chains = [][]int{{0}, {0, 1}, {1}, {1, 0}, {0, 0}}

// the chain of store indices of an event; nil = not a valid route for this case / kind
func (c *c18Case) chain(ev c18Ev) []int {
	if ev.R < 0 || ev.R >= len(c18Chains) {
		return nil
	}
	ch := c18Chains[ev.R]
	if ev.Kind == c18Direct || ev.Kind == c18DirectAt {
		if ev.R != 0 && ev.R != 2 {
			return nil
		}
	}
	for _, k := range ch {
		if k == 1 && c.S2 == nil {
			return nil
		}
	}
	return ch
}

// a*b < c*d on 128 bits
func mulLess(a, b, c, d uint64) bool {
	h1, l1 := bits.Mul64(a, b)
	h2, l2 := bits.Mul64(c, d)
	return h1 < h2 || (h1 == h2 && l1 < l2)
}

var c18Base = time.Unix(1700000000, 0)

// c18Call: one Store.Allow call as the recording wrapper of a store saw it
type c18Call struct {
	store int
	ev    int // index of the event that made the call
	id    string
	t     int64
	ok    bool
}

type c18RecStore struct {
	k     int
	inner *middleware.RateLimiterMemoryStore
	d     *c18Driver
}

func (s *c18RecStore) Allow(id string) (bool, error) {
	ok, err := s.inner.Allow(id)
	s.d.calls = append(s.d.calls, c18Call{store: s.k, ev: s.d.ev, id: id, t: s.d.cur, ok: ok})
	if err != nil {
		s.d.bad = "Allow returned an error"
	}
	return ok, err
}

type c18Driver struct {
	cur    int64
	ev     int
	calls  []c18Call
	before int
	bad    string
}

type c18Obs struct {
	ran    bool
	status int
	before int       // BeforeFunc calls during the event
	calls  []c18Call // Store.Allow calls during the event, in order
	bad    string
}

// admitted: the decision of the only store call of a direct event / single-limiter request
func (o c18Obs) admitted() bool { return len(o.calls) > 0 && o.calls[len(o.calls)-1].ok }

var errC18Extract = errors.New("no identifier")

// c18Drive runs the events against fresh real stores and returns one observation per event.
func c18Drive(c *c18Case, evs []c18Ev) (obs []c18Obs, panicked string) {
	defer func() {
		if r := recover(); r != nil {
			panicked = fmt.Sprint(r)
		}
	}()
	d := &c18Driver{cur: c.T0}
	var recs []*c18RecStore
	for k, sp := range c.stores() {
		st := sp.build()
		middleware.VerifSetClock(st, func() time.Time { return c18Base.Add(time.Duration(d.cur)) })
		recs = append(recs, &c18RecStore{k: k, inner: st, d: d})
	}
	// mk: a new RateLimiter instance on store k (every registration gets its own instance)
	mk := func(k int) echo.MiddlewareFunc {
		if c.Ctor == 1 {
			if c.Raw {
				return middleware.RateLimiter(recs[k].inner)
			}
			return middleware.RateLimiter(recs[k])
		}
		var theStore middleware.RateLimiterStore = recs[k]
		if c.Raw {
			theStore = recs[k].inner
		}
		cfg := middleware.RateLimiterConfig{Store: theStore}
		if c.Ctor == 0 {
			cfg.Skipper = func(ctx echo.Context) bool { return ctx.Request().Header.Get("X-Skip") != "" }
		}
		if c.Before {
			cfg.BeforeFunc = func(ctx echo.Context) { d.before++ }
		}
		switch c.CustomHandlers {
		case 1: // write the response, return nil
			cfg.DenyHandler = func(ctx echo.Context, identifier string, err error) error {
				return ctx.JSON(http.StatusTooManyRequests, map[string]string{"message": "slow down", "id": identifier})
			}
			cfg.ErrorHandler = func(ctx echo.Context, err error) error {
				return ctx.JSON(http.StatusForbidden, map[string]string{"message": "who are you"})
			}
		case 2: // return an error of their own
			cfg.DenyHandler = func(ctx echo.Context, identifier string, err error) error {
				return echo.NewHTTPError(http.StatusTooManyRequests, "custom deny for "+identifier)
			}
			cfg.ErrorHandler = func(ctx echo.Context, err error) error {
				return echo.NewHTTPError(http.StatusForbidden, "custom extractor error").SetInternal(err)
			}
		}
		if !c.DefaultID {
			cfg.IdentifierExtractor = func(ctx echo.Context) (string, error) {
				if ctx.Request().Header.Get("X-Err") != "" {
					return "", errC18Extract
				}
				return ctx.Request().Header.Get("X-Id"), nil
			}
		}
		return middleware.RateLimiterWithConfig(cfg)
	}
	e := echo.New()
	ran := false
	h := func(ctx echo.Context) error {
		ran = true
		return ctx.String(http.StatusOK, "ok")
	}
	paths := []string{"/", "/g/x", "/b", "/ba", "/aa"}
	e.GET("/", h, mk(0))
	e.GET("/aa", h, mk(0), mk(0))
	if len(recs) > 1 {
		g := e.Group("/g", mk(0)) // the coarse limiter on the group, the strict one on the route
		g.GET("/x", h, mk(1))
		e.GET("/b", h, mk(1))
		e.GET("/ba", h, mk(1), mk(0))
	}
	for i, ev := range evs {
		d.cur, d.ev, d.calls, d.before, d.bad = ev.T, i, nil, 0, ""
		var o c18Obs
		if ev.Kind == c18Direct {
			k := 0
			if ev.R == 2 {
				k = 1
			}
			ok, _ := recs[k].Allow(ev.ID)
			o = c18Obs{ran: ok, status: 0}
		} else {
			ran = false
			req := httptest.NewRequest(http.MethodGet, paths[ev.R], nil)
			if c.DefaultID {
				req.RemoteAddr = ev.ID + ":4321"
			} else {
				req.Header.Set("X-Id", ev.ID)
			}
			if ev.Kind == c18HTTPErr {
				req.Header.Set("X-Err", "1")
			}
			if ev.Kind == c18HTTPSkip {
				req.Header.Set("X-Skip", "1")
			}
			w := httptest.NewRecorder()
			e.ServeHTTP(w, req)
			o = c18Obs{ran: ran, status: w.Code}
			if c.Raw && ev.Kind == c18HTTP {
				// one limiter on the path: it admitted iff the handler ran
				d.calls = append(d.calls, c18Call{store: c.chain(ev)[0], ev: i, id: ev.ID, t: ev.T, ok: ran})
			}
		}
		o.calls, o.before, o.bad = d.calls, d.before, d.bad
		obs = append(obs, o)
	}
	return obs, ""
}

// c18Replay: the decisions a fresh real store with parameters sp takes for the given calls alone
func c18Replay(sp c18SP, t0 int64, calls []c18Call) (oks []bool, panicked string) {
	defer func() {
		if r := recover(); r != nil {
			panicked = fmt.Sprint(r)
		}
	}()
	st := sp.build()
	cur := t0
	middleware.VerifSetClock(st, func() time.Time { return c18Base.Add(time.Duration(cur)) })
	for _, cl := range calls {
		cur = cl.t
		ok, _ := st.Allow(cl.id)
		oks = append(oks, ok)
	}
	return oks, ""
}

// ---------- frozen-clock stress (concurrent first requests) ----------

// c18RunStress: on a frozen clock nothing is refilled and no reading is older than another,
// so whatever the interleaving each identifier may be admitted at most `burst` times
// (C18_window with d = 0; C18_skew_bucket with no backward jumps) and, since a refusal needs a
// used-up allowance, exactly min(burst, calls) times.  Sound on every schedule: oracle only.
func c18RunStress(c *c18Case) Result {
	if c.StressIDs <= 0 || c.StressG <= 0 || c.StressIDs > 64 || c.StressG > 256 || c.RateNum >= c.RateDen*c18Second || c.StressIdle < 0 || (c.StressIdle > 0 && (!c.hexp() || c.StressIdle <= c.effExpires())) {
		return Result{Tags: []string{"invalid-case"}}
	}
	var oracle string
	func() {
		defer func() {
			if r := recover(); r != nil {
				oracle = fmt.Sprint("panic: ", r)
			}
		}()
		st := c.sp0().build()
		frozen := c18Base.Add(time.Duration(c.T0))
		middleware.VerifSetClock(st, func() time.Time { return frozen })
		if c.StressIdle > 0 {
			for i := 0; i < c.StressIDs; i++ {
				for k := int64(0); k < c.effBurst(); k++ {
					if ok, _ := st.Allow(fmt.Sprintf("stress-%d", i)); !ok {
						oracle = fmt.Sprintf("refusal: first-time identifier \"stress-%d\" refused at call %d although burst is %d", i, k+1, c.effBurst())
						return
					}
				}
			}
			frozen = c18Base.Add(time.Duration(c.T0 + c.StressIdle)) // no goroutine is running yet
		}
		counts := make([]int64, c.StressIDs)
		var mu sync.Mutex
		var wg sync.WaitGroup
		start := make(chan struct{})
		for i := 0; i < c.StressIDs; i++ {
			id := fmt.Sprintf("stress-%d", i)
			for g := 0; g < c.StressG; g++ {
				wg.Add(1)
				go func(i int) {
					defer wg.Done()
					<-start
					if ok, _ := st.Allow(id); ok {
						mu.Lock()
						counts[i]++
						mu.Unlock()
					}
				}(i)
			}
		}
		close(start)
		wg.Wait()
		burst := c.effBurst()
		want := burst
		if int64(c.StressG) < want {
			want = int64(c.StressG)
		}
		for i, k := range counts {
			if k > burst {
				oracle = fmt.Sprintf("window: identifier \"stress-%d\": %d of %d concurrent calls admitted at one instant (frozen clock) > burst %d", i, k, c.StressG, burst)
				return
			}
			if k < want {
				oracle = fmt.Sprintf("refusal: identifier \"stress-%d\": only %d of %d concurrent calls admitted at one instant although burst is %d", i, k, c.StressG, burst)
				return
			}
		}
	}()
	tags := []string{"stress-frozen-clock"}
	if c.StressIdle > 0 {
		tags = append(tags, "stress-return-at-the-sweep")
	}
	return Result{Oracle: oracle, Tags: tags, Nontrivial: true}
}

// c18GenStressIdle: the identifiers return together after more than ExpiresIn (refilled to a full burst or
// forgotten and fresh: a full burst either way, never two)
func c18GenStressIdle(r *rand.Rand) *c18Case {
	c := c18GenStress(r)
	c.RateNum, c.RateDen = int64(1+r.Intn(20)), 1
	c.Burst = 1 + r.Intn(4)
	c.ExpiresIn = ceilDiv(int64(c.Burst)*c18Second, c.RateNum) + int64(r.Intn(3))*c18Second
	c.StressIdle = c.ExpiresIn + 1 + int64(r.Intn(1000))
	c.StressG = c.Burst + 4 + r.Intn(24)
	return c
}

func c18GenStress(r *rand.Rand) *c18Case {
	c := &c18Case{RateNum: int64(1 + r.Intn(100)), RateDen: int64(1 + r.Intn(4)), T0: int64(r.Intn(1000000000))}
	c.Burst = 1 + r.Intn(3)
	if r.Intn(2) == 0 {
		c.Burst = 1
	}
	c.ExpiresIn = 0
	c.StressIDs = 4 + r.Intn(12)
	c.StressG = 8 + r.Intn(24)
	return c
}

// ---------- skew cases (F19) ----------

type c18SkewCall struct {
	t         int64
	hold      bool
	n         int
	wasParked bool
	parked    chan struct{}
	release   chan struct{}
	done      chan struct{}
	ok        bool
	left      int
	idx       int
}

// c18DriveSkew runs the calls of a skew case.  Deterministic: a held call runs in its own
// goroutine and is parked INSIDE its first clock reading taken while the store mutex is free
// (the one for AllowN; middleware.VerifStoreLocked tells) on a channel; the driver starts the next call only after the
// goroutine has signalled that it is parked, and waits for its completion after releasing it.
// Returns the decisions (indexed like c.Evs) and the order in which the AllowN steps ran.
func c18DriveSkew(c *c18Case) (admitted []bool, order []int, panicked string) {
	defer func() {
		if r := recover(); r != nil {
			panicked = fmt.Sprint(r)
		}
	}()
	st := c.sp0().build()
	var mu sync.Mutex
	var curCall *c18SkewCall
	t0 := c.T0
	middleware.VerifSetClock(st, func() time.Time {
		mu.Lock()
		cc := curCall
		if cc == nil {
			mu.Unlock()
			return c18Base.Add(time.Duration(t0))
		}
		cc.n++
		park := cc.hold && !cc.wasParked && !middleware.VerifStoreLocked(st)
		if park {
			cc.wasParked = true
		}
		mu.Unlock()
		if park {
			// the first reading taken while the store mutex is free: the one for AllowN
			close(cc.parked)
			<-cc.release
		}
		return c18Base.Add(time.Duration(cc.t))
	})
	admitted = make([]bool, len(c.Evs))
	var pending []*c18SkewCall
	finish := func(cc *c18SkewCall) {
		close(cc.release)
		<-cc.done
		admitted[cc.idx] = cc.ok
		order = append(order, cc.idx)
	}
	tick := func() { // one more call has completed
		var keep []*c18SkewCall
		for _, p := range pending {
			p.left--
			if p.left <= 0 {
				finish(p)
			} else {
				keep = append(keep, p)
			}
		}
		pending = keep
	}
	for i, ev := range c.Evs {
		cc := &c18SkewCall{t: ev.T, hold: ev.Hold > 0, parked: make(chan struct{}), release: make(chan struct{}), done: make(chan struct{}), left: ev.Hold, idx: i}
		mu.Lock()
		curCall = cc
		mu.Unlock()
		if cc.hold {
			id := ev.ID
			go func() {
				defer close(cc.done)
				defer func() { recover() }()
				cc.ok, _ = st.Allow(id)
			}()
			completed := false
			select {
			case <-cc.parked:
			case <-cc.done: // no clock reading outside the store mutex: the call ran to its end
				completed = true
			case <-time.After(10 * time.Second):
				return nil, nil, "deadlock: a concurrent Store.Allow neither parked nor returned"
			}
			mu.Lock()
			curCall = nil
			mu.Unlock()
			if completed {
				admitted[i] = cc.ok
				order = append(order, i)
				tick()
			} else {
				pending = append(pending, cc)
			}
			continue
		}
		id := ev.ID
		syncDone := make(chan bool, 1)
		go func() {
			defer func() {
				if recover() != nil {
					syncDone <- false
				}
			}()
			ok, _ := st.Allow(id)
			syncDone <- ok
		}()
		var ok bool
		select {
		case ok = <-syncDone:
		case <-time.After(10 * time.Second):
			return nil, nil, "deadlock: Store.Allow did not return while other calls were parked before AllowN"
		}
		mu.Lock()
		curCall = nil
		mu.Unlock()
		admitted[i] = ok
		order = append(order, i)
		tick()
	}
	for _, p := range pending {
		finish(p)
	}
	return admitted, order, ""
}

// F19 allowance (C18_skew_bucket), evaluated on the trace of one identifier in AllowN order:
// for every segment, admitted <= burst + rate*(newest reading - first reading + 1ns)
//   - rate * sum over admitted calls of (newest reading before it - its reading)
func c18SkewAllowance(c *c18Case, ts []int64, adm []bool) string {
	burst := c.effBurst()
	S := uint64(c.RateDen * c18Second)
	for i := range ts {
		hw := ts[i]
		var cnt, back int64
		for j := i; j < len(ts); j++ {
			if adm[j] {
				cnt++
				if hw > ts[j] {
					back += hw - ts[j]
				}
			}
			if ts[j] > hw {
				hw = ts[j]
			}
			if cnt > burst && mulLess(uint64(c.RateNum), uint64(hw-ts[i]+1+back), uint64(cnt-burst), S) {
				return fmt.Sprintf("calls %d..%d (AllowN order): %d admitted > burst %d + rate %d/%d * (%d ns + 1 ns + backward jumps %d ns)", i, j, cnt, burst, c.RateNum, c.RateDen, hw-ts[i], back)
			}
		}
	}
	return ""
}

func c18RunSkew(c *c18Case) Result {
	span := int64(0)
	prev := c.T0
	for _, ev := range c.Evs {
		if ev.Kind != c18DirectAt || ev.T < prev || ev.Hold < 0 || ev.R != 0 {
			return Result{Tags: []string{"invalid-case"}}
		}
		prev = ev.T
		span = ev.T - c.T0
	}
	if c.effExpires() < span+1 || !c.hexp() {
		return Result{Tags: []string{"invalid-case"}} // a sweep could happen: not a skew case
	}
	adm, order, p := c18DriveSkew(c)
	if p != "" {
		return Result{Oracle: "panic: " + p, Tags: []string{"panic"}}
	}
	// model op: the calls in AllowN order; t = reading under the mutex, tb = AllowN reading (equal)
	ops := []string{"1", wInt64(c.RateNum), wInt64(c.RateDen), wInt(c.Burst), wInt64(c.ExpiresIn), wInt64(c.T0), "0", wInt(len(order))}
	out := []string{wInt(len(order))}
	byID := map[string][]int{}
	var ids []string
	inverted := false
	hwAll := map[string]int64{}
	for _, i := range order {
		ev := c.Evs[i]
		ops = append(ops, wInt64(ev.T), wInt(c18DirectAt), wStr(ev.ID), wInt64(ev.T), "1", "0")
		out = append(out, wBool(adm[i]), "0", "0")
		if _, ok := byID[ev.ID]; !ok {
			ids = append(ids, ev.ID)
		}
		byID[ev.ID] = append(byID[ev.ID], i)
		if hw, ok := hwAll[ev.ID]; ok && ev.T < hw {
			inverted = true
		}
		if ev.T > hwAll[ev.ID] {
			hwAll[ev.ID] = ev.T
		}
	}
	tags := []string{"skew-case", "exact-stream"}
	if inverted {
		tags = append(tags, "out-of-order-readings")
	}
	res := Result{Ops: strings.Join(ops, " "), Obs: strings.Join(out, " "), Tags: tags, Nontrivial: inverted}
	var beyond, skewed, noslack string
	for _, id := range ids {
		var ts []int64
		var ad []bool
		var admT []int64
		for _, i := range byID[id] {
			ts = append(ts, c.Evs[i].T)
			ad = append(ad, adm[i])
			if adm[i] {
				admT = append(admT, c.Evs[i].T)
			}
		}
		if w := c18SkewAllowance(c, ts, ad); w != "" && beyond == "" {
			beyond = fmt.Sprintf("window: identifier %q: %s", id, w)
		}
		sort.Slice(admT, func(a, b int) bool { return admT[a] < admT[b] })
		if w := c18Window(c.sp0(), admT, 1); w != "" {
			if skewed == "" {
				skewed = fmt.Sprintf("window-skew: identifier %q: %s", id, w)
			}
		} else if w := c18Window(c.sp0(), admT, 0); w != "" && noslack == "" {
			noslack = fmt.Sprintf("window-noslack: identifier %q: %s", id, w)
		}
	}
	switch {
	case beyond != "":
		res.Oracle = beyond
	case skewed != "":
		res.Oracle = skewed
		res.Tags = append(res.Tags, "F19-class")
	case noslack != "":
		res.Oracle = noslack
		res.Tags = append(res.Tags, "F11-class")
	}
	return res
}

func c18TouchKind(k int) bool { return k == c18Direct || k == c18HTTP }

// window oracle on the admitted instants of one identifier (sorted).  Returns the first
// window violating the bound with `slack` extra nanoseconds (0 or 1), or "".
func c18Window(c c18SP, times []int64, slack int64) string {
	burst := c.effBurst()
	S := uint64(c.RateDen * c18Second)
	for i := range times {
		for j := i; j < len(times); j++ {
			cnt := int64(j - i + 1)
			if cnt <= burst {
				continue
			}
			d := times[j] - times[i]
			// (cnt-burst)*S <= num*(d+slack) ?
			if mulLess(uint64(c.RateNum), uint64(d+slack), uint64(cnt-burst), S) {
				return fmt.Sprintf("%d admitted in [%d,%d] ns (d=%d ns) > burst %d + rate %d/%d * (d+%dns)", cnt, times[i], times[j], d, burst, c.RateNum, c.RateDen, slack)
			}
		}
	}
	return ""
}

// refusal oracle: the request at instant t was refused although `admitted` (instants of the
// admitted requests of the same identifier so far, sorted) leaves room in every window.
func c18RefusalUnjustified(c c18SP, admitted []int64, t int64) bool {
	burst := c.effBurst()
	if burst == 0 {
		return false // an empty allowance is always used up
	}
	S := uint64(c.RateDen * c18Second)
	for i := range admitted {
		cnt := int64(len(admitted)-i) + 1
		if cnt <= burst {
			continue
		}
		d := t - admitted[i]
		// used up: (cnt-burst)*S > num*d
		if mulLess(uint64(c.RateNum), uint64(d), uint64(cnt-burst), S) {
			return false
		}
	}
	return true
}

func c18Monotone(c *c18Case) bool {
	prev := c.T0
	for _, ev := range c.Evs {
		if ev.T < prev {
			return false
		}
		prev = ev.T
	}
	return true
}

type c18Verdict struct {
	other   string // failure of an oracle other than the slack-free window bound
	noslack string // failure of the window bound as stated (no slack)
}

func c18Oracles(c *c18Case, obs []c18Obs) (v c18Verdict, tags []string, nontrivial bool) {
	tagset := map[string]bool{}
	fail := func(s string) {
		if v.other == "" {
			v.other = s
		}
	}
	sps := c.stores()
	names := []string{"store 0", "store 1"}
	// middleware mapping: every limiter instance of the route's chain, outermost first, consults ITS
	// store exactly once; the first refusal answers 429 and nothing behind it is reached; the handler
	// runs exactly when every instance admitted
	for i, ev := range c.Evs {
		o := obs[i]
		if o.bad != "" {
			fail(fmt.Sprintf("middleware: event %d: %s", i, o.bad))
		}
		chain := c.chain(ev)
		if len(chain) > 1 {
			tagset[fmt.Sprintf("chain-%v", chain)] = true
		}
		switch ev.Kind {
		case c18HTTP:
			allOK := true
			pos := 0
			for _, k := range chain {
				if pos >= len(o.calls) {
					fail(fmt.Sprintf("middleware: event %d: the limiter #%d of the route's chain %v (%s) was not consulted although every limiter before it admitted", i, pos, chain, names[k]))
					allOK = false
					break
				}
				if o.calls[pos].store != k || o.calls[pos].id != ev.ID {
					fail(fmt.Sprintf("middleware: event %d: call %d went to %s with identifier %q, the chain %v asks for %s with %q", i, pos, names[o.calls[pos].store], o.calls[pos].id, chain, names[k], ev.ID))
					allOK = false
					break
				}
				pos++
				if !o.calls[pos-1].ok {
					allOK = false
					break
				}
			}
			if v.other == "" && pos < len(o.calls) {
				fail(fmt.Sprintf("middleware: event %d: %d Store.Allow calls for a chain %v that ends after %d", i, len(o.calls), chain, pos))
			}
			if v.other != "" {
				break
			}
			if o.ran != allOK {
				fail(fmt.Sprintf("middleware: event %d: Store.Allow=%v but handler ran=%v", i, allOK, o.ran))
			} else if !allOK && o.status != http.StatusTooManyRequests {
				fail(fmt.Sprintf("middleware: event %d: refused request answered %d, not 429", i, o.status))
			} else if allOK && o.status != http.StatusOK {
				fail(fmt.Sprintf("middleware: event %d: admitted request answered %d, handler sent 200", i, o.status))
			}
			if len(o.calls) > 0 && !o.calls[len(o.calls)-1].ok && len(o.calls) < len(chain) {
				tagset["outer-limiter-refused"] = true
			}
			if allOK && len(chain) > 1 {
				tagset["passed-stacked-limiters"] = true
			}
			if !allOK && len(o.calls) == len(chain) && len(chain) > 1 {
				tagset["inner-limiter-refused"] = true
			}
		case c18HTTPErr:
			tagset["extractor-error"] = true
			if o.ran || len(o.calls) > 0 || o.status != http.StatusForbidden {
				fail(fmt.Sprintf("middleware: event %d: extractor error gave ran=%v store-called=%v status=%d (want 403, nothing else)", i, o.ran, len(o.calls) > 0, o.status))
			}
		case c18HTTPSkip:
			tagset["skipped"] = true
			if !o.ran || len(o.calls) > 0 || o.status != http.StatusOK {
				fail(fmt.Sprintf("middleware: event %d: skipped request gave ran=%v store-called=%v status=%d", i, o.ran, len(o.calls) > 0, o.status))
			}
		case c18Direct:
			if len(o.calls) != 1 {
				fail(fmt.Sprintf("event %d: direct call recorded %d times", i, len(o.calls)))
			}
		}
	}
	finish := func() {
		for t := range tagset {
			tags = append(tags, t)
		}
		sort.Strings(tags)
	}
	if !c18Monotone(c) {
		tagset["non-monotone-clock"] = true
		finish()
		return v, tags, false
	}
	// per store: its own call trace
	traces := make([][]c18Call, len(sps))
	for _, o := range obs {
		for _, cl := range o.calls {
			if cl.store >= 0 && cl.store < len(sps) {
				traces[cl.store] = append(traces[cl.store], cl)
			}
		}
	}
	for k, sp := range sps {
		hexp := sp.hexp()
		if !hexp {
			tagset["no-hexp"] = true
		}
		pre := ""
		if len(sps) > 1 {
			pre = names[k] + ": "
		}
		ids := []string{}
		byID := map[string][]c18Call{}
		for _, cl := range traces[k] {
			if _, ok := byID[cl.id]; !ok {
				ids = append(ids, cl.id)
			}
			byID[cl.id] = append(byID[cl.id], cl)
		}
		if len(ids) > 1 {
			tagset["multi-id"] = true
		}
		exp := sp.effExpires()
		var lastAny int64 = c.T0
		for _, cl := range traces[k] {
			if cl.t-lastAny > exp {
				tagset["gap-over-expiresin"] = true
			}
			lastAny = cl.t
		}
		for _, id := range ids {
			var adm []int64
			sawDeny, admitAfterDeny := false, false
			var prevT int64 = -1
			for _, cl := range byID[id] {
				if prevT >= 0 && cl.t-prevT > exp {
					tagset["return-after-expiry"] = true
					nontrivial = true
				}
				if prevT >= 0 && cl.t-prevT == exp {
					tagset["return-at-expiry-edge"] = true
				}
				prevT = cl.t
				if cl.ok {
					if sawDeny {
						admitAfterDeny = true
					}
					adm = append(adm, cl.t)
				} else {
					sawDeny = true
					if hexp && c18RefusalUnjustified(sp, adm, cl.t) {
						fail(fmt.Sprintf("refusal: %sidentifier %q refused at %d ns although no window of its own admitted requests is used up", pre, id, cl.t))
					}
				}
			}
			if sawDeny {
				tagset["denied"] = true
			}
			if admitAfterDeny {
				tagset["admit-after-deny"] = true
				nontrivial = true
			}
			if hexp {
				if w := c18Window(sp, adm, 1); w != "" {
					fail("window: " + pre + "identifier " + fmt.Sprintf("%q: ", id) + w)
				} else if w := c18Window(sp, adm, 0); w != "" {
					tagset["F11-class"] = true
					if v.noslack == "" {
						v.noslack = "window-noslack: " + pre + "identifier " + fmt.Sprintf("%q: ", id) + w
					}
				}
			}
		}
		// independence: re-run a fresh real store on each identifier's own traffic
		if hexp && len(ids) > 1 && v.other == "" {
			for _, id := range ids {
				oks, p := c18Replay(sp, c.T0, byID[id])
				if p != "" || len(oks) != len(byID[id]) {
					fail("independence: re-run panicked: " + p)
					break
				}
				for j, cl := range byID[id] {
					if oks[j] != cl.ok {
						fail(fmt.Sprintf("independence: %sidentifier %q, event %d at %d ns: admitted=%v with the other identifiers' traffic, %v without it", pre, id, cl.ev, cl.t, cl.ok, oks[j]))
						break
					}
				}
				if v.other != "" {
					break
				}
			}
		}
		// isolation: what a store decides is a function of its OWN call history; the other store of the
		// process and the limiter instances stacked around it have no say (re-run on a fresh store)
		if len(sps) > 1 && v.other == "" {
			oks, p := c18Replay(sp, c.T0, traces[k])
			if p != "" || len(oks) != len(traces[k]) {
				fail("isolation: re-run panicked: " + p)
			}
			for j, cl := range traces[k] {
				if v.other == "" && oks[j] != cl.ok {
					fail(fmt.Sprintf("isolation: %sidentifier %q, event %d at %d ns: admitted=%v next to the other store, %v when the same calls are made to a store of its own", pre, cl.id, cl.ev, cl.t, cl.ok, oks[j]))
				}
			}
		}
		if sp.Burst == 0 {
			tagset["default-burst"] = true
		}
		if sp.ExpiresIn == 0 {
			tagset["default-expiresin"] = true
		}
		if sp.Simple {
			tagset["ctor-NewRateLimiterMemoryStore(rate)"] = true
		}
	}
	if len(sps) > 1 {
		tagset["two-stores"] = true
	}
	switch c.Ctor {
	case 1:
		tagset["ctor-RateLimiter(store)"] = true
	case 2:
		tagset["config-with-nil-skipper"] = true
	}
	if c.Before {
		tagset["before-func"] = true
	}
	if c.Raw {
		tagset["store-handed-to-the-middleware-unwrapped"] = true
	}
	if c.DefaultID {
		tagset["default-extractor"] = true
	}
	switch c.CustomHandlers {
	case 1:
		tagset["custom-handlers-write-and-return-nil"] = true
	case 2:
		tagset["custom-handlers-return-error"] = true
	}
	if c.Exact {
		tagset["exact-stream"] = true
	} else {
		tagset["arbitrary-stream"] = true
	}
	finish()
	return v, tags, nontrivial
}

// cases take c18Alone for reading; a failing case is run once more with the lock held for
// writing, i.e. while no other case is running
var c18Alone sync.RWMutex

var c18TolSelfTest = os.Getenv("VERIF_C18_TOLTEST") != ""

func (c *c18Case) valid() bool {
	if c.Ctor < 0 || c.Ctor > 2 || c.CustomHandlers < 0 || c.CustomHandlers > 2 {
		return false
	}
	for _, sp := range c.stores() {
		if !sp.valid() {
			return false
		}
	}
	if c.Ctor == 1 && (!c.DefaultID || c.CustomHandlers != 0 || c.Before) {
		return false
	}
	for _, ev := range c.Evs {
		if ev.Kind < c18Direct || ev.Kind > c18DirectAt || ev.T < 0 {
			return false
		}
		if c.chain(ev) == nil {
			return false
		}
		if ev.Kind == c18HTTPSkip && c.Ctor != 0 {
			return false
		}
		if c.Raw && ev.Kind != c18Direct && ev.Kind != c18DirectAt && len(c.chain(ev)) != 1 {
			return false
		}
		if ev.Kind == c18HTTPErr && c.DefaultID {
			return false
		}
	}
	return true
}

var c18Checkpoints = []int{1, 100, 1000, 1023, 1024, 1025, 4096, 10000, 16384, 32768, 50000, 65528, 65535, 65536, 65537, 65600, 100000, 131072, 131073, 200000, 262144, 262145}

// c18RunMany: tens of thousands of live identifiers in one store.  However many identifiers the store
// tracks, an identifier's allowance is its own: a victim that used up its burst at T0 and earned less than one
// token since must still be refused (window bound on its own admitted calls), and every first-time identifier
// gets its first request through (burst >= 1).  O(Many) work; no model comparison.
func c18RunMany(c *c18Case) Result {
	sp := c.sp0()
	if c.Many > 400000 || c.S2 != nil || sp.effBurst() < 1 || sp.effBurst() > 64 || !sp.hexp() || len(c.Evs) != 0 {
		return Result{Tags: []string{"invalid-case"}}
	}
	const victims = 8
	span := c18Second + int64(c.Many)*1000 + 1000
	if sp.effExpires() <= span {
		return Result{Tags: []string{"invalid-case"}} // a regular sweep could forget a victim legitimately
	}
	var oracle string
	fail := func(s string) {
		if oracle == "" {
			oracle = s
		}
	}
	func() {
		defer func() {
			if r := recover(); r != nil {
				fail(fmt.Sprint("panic: ", r))
			}
		}()
		st := sp.build()
		cur := c.T0
		middleware.VerifSetClock(st, func() time.Time { return c18Base.Add(time.Duration(cur)) })
		burst := sp.effBurst()
		adm := make([][]int64, victims)
		probe := func(v int, live int) {
			id := fmt.Sprintf("victim-%d", v)
			for k := int64(0); k < burst+1; k++ {
				ok, _ := st.Allow(id)
				if ok {
					adm[v] = append(adm[v], cur)
					if w := c18Window(sp, adm[v], 1); w != "" {
						fail(fmt.Sprintf("window: identifier %q with %d other identifiers tracked by the store: %s", id, live, w))
					}
				} else if c18RefusalUnjustified(sp, adm[v], cur) {
					fail(fmt.Sprintf("refusal: identifier %q refused at %d ns with %d other identifiers tracked although no window of its own admitted requests is used up", id, cur, live))
				}
			}
		}
		for v := 0; v < victims; v++ {
			probe(v, 0)
		}
		next := 1 // the next victim that has not been seen since T0
		cp := 0
		for i := 0; i < c.Many && oracle == ""; i++ {
			cur = c.T0 + c18Second + int64(i)*1000
			if ok, _ := st.Allow("m-" + wInt(i)); !ok {
				fail(fmt.Sprintf("refusal: first-time identifier \"m-%d\" (number %d in the store) refused although burst is %d", i, i+victims+1, burst))
			}
			for cp < len(c18Checkpoints) && c18Checkpoints[cp] < i+1+victims {
				cp++
			}
			if cp < len(c18Checkpoints) && c18Checkpoints[cp] == i+1+victims {
				// the table holds exactly c18Checkpoints[cp] identifiers now
				probe(0, i+1)
				if next < victims {
					probe(next, i+1)
					next++
				}
			}
		}
		cur += 1000
		for v := 0; v < victims && oracle == ""; v++ {
			probe(v, c.Many)
		}
	}()
	return Result{Oracle: oracle, Tags: []string{fmt.Sprintf("many-identifiers-%dk", (c.Many+999)/1000)}, Nontrivial: true}
}

// c18GenMany: big = tens of thousands of identifiers (oracle only)
func c18GenMany(r *rand.Rand, n int) *c18Case {
	c := &c18Case{T0: int64(r.Intn(1000000000)), Many: n}
	switch r.Intn(3) {
	case 0: // rate 0.01/s, burst 1..3, default ExpiresIn (3 min >= burst/rate needs burst <= 1)
		c.RateNum, c.RateDen, c.Burst, c.ExpiresIn = 1, 100, 1, 0
	case 1:
		c.RateNum, c.RateDen, c.Burst, c.ExpiresIn = 1, 1000, 1+r.Intn(3), 3600*c18Second
	default:
		c.RateNum, c.RateDen, c.Burst, c.ExpiresIn = 1, 50, 2+r.Intn(3), 600*c18Second
	}
	return c
}

// c18GenManySmall: a few hundred to a few thousand identifiers through one store as an ordinary history
// (compared with the model, all oracles): early identifiers use up their burst, a crowd of first-time
// identifiers follows, the early ones come back
func c18GenManySmall(r *rand.Rand, n int) *c18Case {
	c := &c18Case{Exact: true, RateDen: 16, RateNum: int64(1 + r.Intn(8)), Burst: 1 + r.Intn(3)}
	c.T0 = int64(r.Intn(1000)) * c18Tick
	c.ExpiresIn = 0
	if r.Intn(2) == 0 {
		c.ExpiresIn = (int64(c.Burst)*16*c18Second/c.RateNum/c18Tick + 1 + int64(r.Intn(200000))) * c18Tick
	}
	if !c.hexp() {
		c.ExpiresIn = 0
		c.Burst = 1
		c.RateNum = 8
	}
	t := c.T0
	early := 2 + r.Intn(4)
	for v := 0; v < early; v++ {
		for k := 0; k <= c.Burst; k++ {
			c.Evs = append(c.Evs, c18Ev{T: t, Kind: c18Direct, ID: fmt.Sprintf("early-%d", v)})
		}
	}
	t += 512 * c18Tick
	for i := 0; i < n; i++ {
		if i%4 == 0 {
			t += c18Tick
		}
		c.Evs = append(c.Evs, c18Ev{T: t, Kind: c18Direct, ID: "m-" + wInt(i)})
		if i == n/2 || i == n-1 {
			for v := 0; v < early; v++ {
				for k := 0; k <= c.Burst; k++ {
					c.Evs = append(c.Evs, c18Ev{T: t, Kind: c18Direct, ID: fmt.Sprintf("early-%d", v)})
				}
			}
		}
	}
	return c
}

// c18RunNilStore: RateLimiterWithConfig must refuse a configuration without a Store
func c18RunNilStore(c *c18Case) Result {
	panicked := false
	func() {
		defer func() {
			if recover() != nil {
				panicked = true
			}
		}()
		_ = middleware.RateLimiterWithConfig(middleware.RateLimiterConfig{})
	}()
	res := Result{Tags: []string{"nil-store"}}
	if !panicked {
		res.Oracle = "middleware: RateLimiterWithConfig accepted a configuration without a Store"
	}
	return res
}

func c18Run(ci any) Result {
	c := ci.(*c18Case)
	if !c.valid() {
		return Result{Tags: []string{"invalid-case"}}
	}
	if c.NilStore {
		return c18RunNilStore(c)
	}
	if c.Many > 0 {
		c18Alone.RLock()
		defer c18Alone.RUnlock()
		return c18RunMany(c)
	}
	c18Alone.RLock()
	res := c18RunLocked(c)
	c18Alone.RUnlock()
	if c18TolSelfTest && res.Oracle == "" && res.Ops != "" && !c.Skew {
		// development aid (VERIF_C18_TOLTEST=1): the band of c18Tolerable must contain the implementation's own line
		// whenever the model agrees with it (then the framework reports a tie, since the oracle is otherwise silent)
		if !c18Tolerable(c, res.Obs, res.Obs) {
			res.Oracle = "selftest: c18Tolerable rejects the line the implementation produced"
		}
	}
	if res.Oracle != "" && !strings.HasPrefix(res.Oracle, "window-noslack: ") && !strings.HasPrefix(res.Oracle, "window-skew: ") && !strings.HasPrefix(res.Oracle, "window-stall: ") && c.StressIDs == 0 {
		c18Alone.Lock()
		again := c18RunLocked(c)
		c18Alone.Unlock()
		if again.Oracle == "" || strings.HasPrefix(again.Oracle, "window-noslack: ") {
			res.Oracle += " [only while other cases were running: the case passes when it runs alone, so stores of different cases (separate RateLimiterMemoryStore values) influence each other]"
		}
	}
	return res
}

func c18RunLocked(c *c18Case) Result {
	if c.StressIDs > 0 || c.StressG > 0 {
		return c18RunStress(c)
	}
	if c.Split {
		return c18RunSplit(c)
	}
	if c.Skew {
		return c18RunSkew(c)
	}
	for _, ev := range c.Evs {
		if ev.Kind == c18DirectAt {
			return Result{Tags: []string{"invalid-case"}}
		}
	}
	obs, p := c18Drive(c, c.Evs)
	if p != "" {
		return Result{Oracle: "panic: " + p, Tags: []string{"panic"}}
	}
	v, tags, nontrivial := c18Oracles(c, obs)
	res := Result{Tags: tags, Nontrivial: nontrivial}
	if v.other != "" {
		res.Oracle = v.other
	} else {
		res.Oracle = v.noslack
	}
	if c.Exact {
		res.Ops, res.Obs = c18Wire(c, obs)
	}
	return res
}

// the model op line and the observation in the model's format
func c18Wire(c *c18Case, obs []c18Obs) (string, string) {
	sps := c.stores()
	ops := []string{wInt(len(sps))}
	for _, sp := range sps {
		ops = append(ops, wInt64(sp.RateNum), wInt64(sp.RateDen), wInt(sp.Burst), wInt64(sp.ExpiresIn))
	}
	ops = append(ops, wInt64(c.T0), wBool(c.Before), wInt(len(c.Evs)))
	out := []string{wInt(len(c.Evs))}
	for i, ev := range c.Evs {
		ops = append(ops, wInt64(ev.T), wInt(ev.Kind), wStr(ev.ID))
		chain := c.chain(ev)
		if ev.Kind == c18Direct {
			chain = chain[:1]
		}
		ops = append(ops, wInt(len(chain)))
		for _, k := range chain {
			ops = append(ops, wInt(k))
		}
		out = append(out, wBool(obs[i].ran), wInt(obs[i].status), wInt(obs[i].before))
	}
	return strings.Join(ops, " "), strings.Join(out, " ")
}

// F11: the window bound as stated fails, the bound with 1 ns of slack holds, nothing else
// fails and the model (when compared) agrees with the implementation.
func c18Known(ci any, res Result, modelObs string) string {
	c := ci.(*c18Case)
	if res.Ops != "" && res.Obs != modelObs && !c18Tolerable(c, res.Obs, modelObs) {
		// the model does not reproduce it (and the difference is not one the property leaves open, see c18_tol.go):
		// something else is going on
		return ""
	}
	if c.StressIDs > 0 || c.StressG > 0 || c.NilStore || c.Many > 0 || !c.valid() {
		return ""
	}
	if c.Split {
		return c18KnownSplit(c, res)
	}
	if c.Skew {
		// F19: out-of-order AllowN readings; the window bound on the readings fails even with
		// the 1 ns slack, but stays within the allowance of C18_skew_bucket
		if !strings.HasPrefix(res.Oracle, "window-skew: ") && !strings.HasPrefix(res.Oracle, "window-noslack: ") {
			return ""
		}
		again := c18RunSkew(c)
		if again.Oracle == "" || strings.HasPrefix(again.Oracle, "window: ") || strings.HasPrefix(again.Oracle, "panic") {
			return ""
		}
		inverted := false
		for _, t := range again.Tags {
			if t == "out-of-order-readings" {
				inverted = true
			}
		}
		if strings.HasPrefix(again.Oracle, "window-skew: ") {
			if inverted {
				return "F19"
			}
			return ""
		}
		return "F11"
	}
	if !strings.HasPrefix(res.Oracle, "window-noslack: ") {
		return ""
	}
	// re-evaluate the signature from scratch
	obs, p := c18Drive(c, c.Evs)
	if p != "" {
		return ""
	}
	v, _, _ := c18Oracles(c, obs)
	if v.other == "" && v.noslack != "" {
		return "F11"
	}
	return ""
}

// skew stream: concurrent Store.Allow calls; the clock is monotone in start order, some
// goroutines are held before AllowN while 1-3 later calls complete
func c18GenSkew(r *rand.Rand, big bool) *c18Case {
	c := &c18Case{Exact: true, Skew: true}
	j := uint(r.Intn(4))
	c.RateDen = int64(1) << j
	c.RateNum = int64(1 + r.Intn(40))
	c.Burst = 1 + r.Intn(10)
	c.T0 = int64(r.Intn(1000)) * c18Tick
	n := 6 + r.Intn(30)
	if big {
		n = 20 + r.Intn(100)
	}
	ids := []string{"a"}
	if r.Intn(3) == 0 {
		ids = append(ids, "b")
	}
	refill := c.RateDen * c18Second / c.RateNum / c18Tick * c18Tick
	t := c.T0
	pattern := r.Intn(3)
	for i := 0; i < n; i++ {
		switch r.Intn(5) {
		case 0:
		case 1:
			t += c18Tick
		case 2:
			t += refill
		case 3:
			t += refill / 2 / c18Tick * c18Tick
		default:
			t += int64(r.Intn(6)) * c18Tick
		}
		ev := c18Ev{T: t, Kind: c18DirectAt, ID: ids[r.Intn(len(ids))]}
		switch pattern {
		case 0: // every other call is overtaken by the next one
			if i%2 == 0 {
				ev.Hold = 1
			}
		case 1:
			if r.Intn(2) == 0 {
				ev.Hold = 1 + r.Intn(3)
			}
		default:
			if r.Intn(6) == 0 {
				ev.Hold = 1 + r.Intn(3)
			}
		}
		c.Evs = append(c.Evs, ev)
	}
	span := t - c.T0
	c.ExpiresIn = (span/c18Tick + 2 + int64(r.Intn(1000))) * c18Tick
	for !c.hexp() {
		c.ExpiresIn *= 2
	}
	return c
}

// ---------- generators ----------

var c18IDs = []string{"a", "b", "10.0.0.7", "", "id-with-a-long-name-0123456789", "A", "id-with-a-long-name-0123456780", "ab"}
var c18IPs = []string{"10.0.0.1", "10.0.0.2", "192.168.1.9", "203.0.113.5", "203.0.113.57", "10.0.0.12"}

// long identifiers (65-200 bytes) that share long prefixes: they differ only after byte 64,
// only in the last byte, or one is a proper prefix of the other
func c18LongIDs(r *rand.Rand) []string {
	base := strings.Repeat("tenant-0123456789abcdef/", 3)[:64]
	switch r.Intn(5) {
	case 0:
		return []string{base + "A", base + "B"}
	case 1:
		long := base + strings.Repeat("x", 1+r.Intn(135))
		return []string{long + "0", long + "1"}
	case 2:
		return []string{base, base + "-suffix"}
	case 3:
		p := strings.Repeat("k", 127)
		return []string{p + "a", p + "b", p}
	default:
		p := strings.Repeat("Zz", 32+r.Intn(60))
		return []string{p + "/1", p + "/2"}
	}
}

func c18PickIDs(r *rand.Rand, ipOnly bool) []string {
	if !ipOnly && r.Intn(5) == 0 {
		ids := c18LongIDs(r)
		if r.Intn(2) == 0 {
			ids = append(ids, c18IDs[r.Intn(len(c18IDs))])
		}
		return ids
	}
	n := 1 + r.Intn(4)
	src := c18IDs
	if ipOnly {
		src = c18IPs
	}
	perm := r.Perm(len(src))
	var out []string
	for i := 0; i < n && i < len(perm); i++ {
		out = append(out, src[perm[i]])
	}
	return out
}

func c18PickKind(r *rand.Rand, c *c18Case) int {
	switch x := r.Intn(20); {
	case x < 9:
		return c18HTTP
	case x < 18:
		return c18Direct
	case x == 18:
		if c.DefaultID {
			return c18HTTP
		}
		return c18HTTPErr
	default:
		if c.Ctor != 0 {
			return c18HTTP
		}
		return c18HTTPSkip
	}
}

// c18Variants: how stores and middleware instances are built (the convenience constructors, a
// hand-built config with a nil Skipper, BeforeFunc); called before the history is generated
func c18Variants(r *rand.Rand, c *c18Case) {
	c.DefaultID = r.Intn(8) == 0
	if r.Intn(3) == 0 {
		c.CustomHandlers = 1 + r.Intn(2)
	}
	switch r.Intn(10) {
	case 0: // RateLimiter(store): defaults only
		c.Ctor, c.DefaultID, c.CustomHandlers = 1, true, 0
	case 1, 2:
		c.Ctor = 2
	}
	if c.Ctor != 1 && r.Intn(4) == 0 {
		c.Before = true
	}
	c.Raw = r.Intn(3) == 0
	if r.Intn(12) == 0 {
		// NewRateLimiterMemoryStore(rate): burst = int(rate), ExpiresIn = 3 min (ExpiresIn*rate >= burst holds)
		c.Burst, c.ExpiresIn = 0, 0
	}
	if c.Burst == 0 && c.ExpiresIn == 0 && r.Intn(2) == 0 {
		c.Simple = true
	}
}

// c18SecondStore: a second store with other parameters (stricter or more generous), ExpiresIn
// tight, wider or default, always with ExpiresIn*rate >= burst
func c18SecondStore(r *rand.Rand, c *c18Case, unit int64) {
	sp := c18SP{RateDen: c.RateDen}
	if c.Exact {
		sp.RateDen = int64(1) << uint(r.Intn(5))
	} else if r.Intn(2) == 0 {
		sp.RateDen = []int64{1, 2, 3, 5, 8}[r.Intn(5)]
	}
	switch r.Intn(4) {
	case 0: // strict
		sp.RateNum = int64(1 + r.Intn(3))
		sp.Burst = 1 + r.Intn(2)
	case 1: // generous
		sp.RateNum = int64(20+r.Intn(200)) * sp.RateDen
		sp.Burst = 10 + r.Intn(30)
	default:
		sp.RateNum = int64(1 + r.Intn(60))
		sp.Burst = 1 + r.Intn(8)
	}
	if r.Intn(6) == 0 {
		sp.Burst = 0
	}
	minExp := ceilDiv(ceilDiv(sp.effBurst()*sp.RateDen*c18Second, sp.RateNum), unit) * unit
	if minExp == 0 {
		minExp = unit
	}
	switch x := r.Intn(10); {
	case x < 4:
		sp.ExpiresIn = minExp
	case x < 7:
		sp.ExpiresIn = minExp + int64(r.Intn(4))*unit
	case x < 9:
		sp.ExpiresIn = 2*minExp + int64(r.Intn(100))*unit
	default:
		sp.ExpiresIn = 0
		if !sp.hexp() {
			sp.ExpiresIn = minExp
		}
		if sp.Burst == 0 && sp.ExpiresIn == 0 && r.Intn(2) == 0 {
			sp.Simple = true
		}
	}
	c.S2 = &sp
}

// c18AssignRoutes: send the requests of a generated history over the routes with one limiter,
// two stacked limiters with different stores (group + route, or both on the route), or two
// instances sharing a store; direct calls go to either store
func c18AssignRoutes(r *rand.Rand, c *c18Case) {
	mode := r.Intn(4)
	for i := range c.Evs {
		ev := &c.Evs[i]
		direct := ev.Kind == c18Direct
		if c.S2 == nil {
			if !direct && r.Intn(2) == 0 && !c.Raw {
				ev.R = 4
			}
			continue
		}
		if c.Raw && !direct {
			ev.R = []int{0, 2}[r.Intn(2)]
			continue
		}
		switch {
		case direct:
			if r.Intn(2) == 0 {
				ev.R = 2
			}
		case mode == 0: // everything through the stacked pair
			ev.R = 1
		case mode == 1:
			ev.R = []int{1, 3}[r.Intn(2)]
		default:
			ev.R = r.Intn(5)
		}
	}
}

// c18Probe2: two stores with different parameters in one process.  An identifier spends at one
// store and stays idle until that store has swept it; then identifiers that are NEW to the other
// store arrive there with more than its burst (and the same the other way round).
func c18Probe2(r *rand.Rand, c *c18Case, unit int64, rounds int) {
	ids := c18PickIDs(r, c.DefaultID)
	for len(ids) < 3 {
		ids = append(ids, fmt.Sprintf("10.1.0.%d", 1+r.Intn(200)))
	}
	sps := c.stores()
	t := c.T0 + int64(r.Intn(4))*unit
	fresh := 0
	for round := 0; round < rounds; round++ {
		x := r.Intn(2) // the store that sweeps
		y := 1 - x
		rx, ry := []int{0, 2}[x], []int{0, 2}[y]
		a, b := ids[r.Intn(len(ids))], ids[r.Intn(len(ids))]
		k := 1 + r.Intn(int(sps[x].effBurst())+2)
		for i := 0; i < k; i++ {
			c.Evs = append(c.Evs, c18Ev{T: t, Kind: c18Direct, ID: a, R: rx})
		}
		if r.Intn(2) == 0 {
			c.Evs = append(c.Evs, c18Ev{T: t, Kind: c18Direct, ID: b, R: rx})
		}
		t += (sps[x].effExpires() + unit + int64(r.Intn(3))*unit) / unit * unit
		c.Evs = append(c.Evs, c18Ev{T: t, Kind: c18Direct, ID: ids[r.Intn(len(ids))], R: rx}) // sweeps the idle ones
		if r.Intn(3) == 0 {
			t += unit
		}
		nNew := 1 + r.Intn(2)
		for j := 0; j < nNew; j++ {
			fresh++
			z := fmt.Sprintf("10.9.%d.%d", round, fresh)
			kind := c18Direct
			route := ry
			if r.Intn(2) == 0 {
				kind = c18HTTP
				if y == 1 && r.Intn(2) == 0 && !c.Raw {
					route = 1
				}
			}
			for i := int64(0); i < sps[y].effBurst()+2; i++ {
				c.Evs = append(c.Evs, c18Ev{T: t, Kind: kind, ID: z, R: route})
			}
		}
		t += int64(r.Intn(3)) * unit
	}
}

func ceilDiv(a, b int64) int64 { return (a + b - 1) / b }

// history generator shared by both streams.  unit = granularity of instants (tick or 1 ns),
// refill = duration of one token (ns, rounded down to the unit).
func c18History(r *rand.Rand, c *c18Case, unit int64, n int) {
	ids := c18PickIDs(r, c.DefaultID)
	exp := c.effExpires()
	burst := c.effBurst()
	refill := int64(0)
	if c.RateNum > 0 {
		refill = c.RateDen * c18Second / c.RateNum / unit * unit
	}
	t := c.T0
	if r.Intn(3) == 0 {
		t += int64(r.Intn(5)) * unit
	}
	cur := ids[r.Intn(len(ids))]
	for len(c.Evs) < n {
		// choose the phase
		switch r.Intn(12) {
		case 0, 1, 2: // burst at one instant
			k := 1 + r.Intn(int(burst)+3)
			for i := 0; i < k && len(c.Evs) < n; i++ {
				c.Evs = append(c.Evs, c18Ev{T: t, Kind: c18PickKind(r, c), ID: cur})
			}
		case 3, 4: // steady arrivals at the refill interval (or one unit off)
			k := 1 + r.Intn(6)
			step := refill
			switch r.Intn(4) {
			case 0:
				step += unit
			case 1:
				if step >= unit {
					step -= unit
				}
			}
			for i := 0; i < k && len(c.Evs) < n; i++ {
				t += step
				c.Evs = append(c.Evs, c18Ev{T: t, Kind: c18PickKind(r, c), ID: cur})
			}
		case 5: // small random gap
			t += int64(r.Intn(8)) * unit
			if unit == 1 {
				t += int64(r.Intn(int(refill/2 + 2)))
			}
			c.Evs = append(c.Evs, c18Ev{T: t, Kind: c18PickKind(r, c), ID: cur})
		case 6: // idle gap around ExpiresIn
			switch r.Intn(5) {
			case 0:
				t += exp
			case 1:
				t += exp + unit
			case 2:
				if exp > unit {
					t += exp - unit
				}
			case 3:
				t += 2*exp + unit
			default:
				t += exp + int64(r.Intn(50))*unit
			}
			c.Evs = append(c.Evs, c18Ev{T: t, Kind: c18PickKind(r, c), ID: cur})
		case 7: // time to refill a few tokens exactly
			k := int64(1 + r.Intn(int(burst)+2))
			if c.RateNum > 0 {
				d := k * c.RateDen * c18Second / c.RateNum
				if r.Intn(2) == 0 {
					d = ceilDiv(k*c.RateDen*c18Second, c.RateNum)
				}
				t += d / unit * unit
			}
			c.Evs = append(c.Evs, c18Ev{T: t, Kind: c18PickKind(r, c), ID: cur})
		case 8, 9: // switch identifier
			cur = ids[r.Intn(len(ids))]
		case 10:
			if c.RateNum > 0 && burst > 0 && r.Intn(2) == 0 {
				// idle for a fraction of the time a full refill takes (the identifier must
				// neither be forgotten nor refilled completely when ExpiresIn is longer)
				fill := burst * c.RateDen * c18Second / c.RateNum
				gap := fill / 8 * int64(1+r.Intn(8)) / unit * unit
				t += gap
				c.Evs = append(c.Evs, c18Ev{T: t, Kind: c18PickKind(r, c), ID: cur})
			} else {
				cur = ids[r.Intn(len(ids))]
			}
		default: // interleave all identifiers at this instant
			for _, id := range ids {
				if len(c.Evs) < n {
					c.Evs = append(c.Evs, c18Ev{T: t, Kind: c18PickKind(r, c), ID: id})
				}
			}
		}
	}
}

// c18Probe: the expiry probe.  Identifier A spends tokens, stays idle for a gap chosen around
// ExpiresIn or as a fraction of the refill time, another identifier B calls (the only way A
// can be swept), then A returns with more than a burst.
func c18Probe(r *rand.Rand, c *c18Case, unit int64, rounds int) {
	ids := c18PickIDs(r, c.DefaultID)
	for len(ids) < 2 {
		ids = c18PickIDs(r, c.DefaultID)
	}
	exp := c.effExpires()
	burst := c.effBurst()
	fill := int64(0)
	if c.RateNum > 0 {
		fill = burst * c.RateDen * c18Second / c.RateNum
	}
	t := c.T0 + int64(r.Intn(4))*unit
	for round := 0; round < rounds; round++ {
		p := r.Perm(len(ids))
		a, b := ids[p[0]], ids[p[1]]
		k := 1 + r.Intn(int(burst)+2)
		for i := 0; i < k; i++ {
			c.Evs = append(c.Evs, c18Ev{T: t, Kind: c18PickKind(r, c), ID: a})
		}
		var g int64
		switch r.Intn(9) {
		case 0:
			g = exp / 2
		case 1:
			g = exp - unit
		case 2:
			g = exp
		case 3:
			g = exp + unit
		case 4:
			g = 2*exp + unit
		case 5:
			g = 3*c18Second + int64(r.Intn(5))*unit // just above a 3 s expiry
		default:
			g = fill / 8 * int64(1+r.Intn(9))
		}
		if g < 0 {
			g = 0
		}
		g = g / unit * unit
		if r.Intn(3) == 0 && g > 2*unit {
			// B calls somewhere inside the gap as well
			h := g / 2 / unit * unit
			t += h
			g -= h
			c.Evs = append(c.Evs, c18Ev{T: t, Kind: c18Direct, ID: b})
		}
		t += g
		c.Evs = append(c.Evs, c18Ev{T: t, Kind: c18PickKind(r, c), ID: b})
		if r.Intn(4) == 0 {
			t += unit
		}
		for i := int64(0); i < burst+2; i++ {
			c.Evs = append(c.Evs, c18Ev{T: t, Kind: c18PickKind(r, c), ID: a})
		}
		t += int64(r.Intn(3)) * fill / 2 / unit * unit
	}
}

// exact stream: rate k/2^j, instants multiples of 2^-9 s
func c18GenExact(r *rand.Rand, big bool) *c18Case {
	c := &c18Case{Exact: true}
	j := uint(r.Intn(5))
	c.RateDen = int64(1) << j
	switch r.Intn(6) {
	case 0:
		c.RateNum = int64(1 + r.Intn(4))
	case 1:
		c.RateNum = int64(1+r.Intn(64)) * c.RateDen // integer rates
	case 2:
		c.RateNum = int64(1 + r.Intn(4000))
	default:
		c.RateNum = int64(1 + r.Intn(60))
	}
	if r.Intn(40) == 0 {
		c.RateNum = 0 // rate 0: only the initial burst
	}
	switch r.Intn(5) {
	case 0:
		c.Burst = 0
	case 1:
		c.Burst = 1
	default:
		c.Burst = 1 + r.Intn(8)
	}
	if big && r.Intn(4) == 0 {
		c.Burst = 1 + r.Intn(40)
	}
	burst := c.effBurst()
	// ExpiresIn with ExpiresIn*rate >= burst (mostly), as multiples of the tick
	minExp := int64(0)
	if c.RateNum > 0 {
		minExp = ceilDiv(ceilDiv(burst*c.RateDen*c18Second, c.RateNum), c18Tick) * c18Tick
	}
	if minExp == 0 {
		minExp = c18Tick
	}
	switch x := r.Intn(10); {
	case x < 3:
		c.ExpiresIn = minExp // tight
	case x < 5:
		c.ExpiresIn = minExp + int64(r.Intn(4))*c18Tick
	case x < 7:
		c.ExpiresIn = 2*minExp + int64(r.Intn(100))*c18Tick
	case x < 8:
		c.ExpiresIn = 0 // default 3 min
		if r.Intn(3) != 0 {
			// slow rate so that idle gaps below 3 min matter: burst <= 180*rate
			c.RateNum = int64(1 + r.Intn(6))
			c.Burst = 1 + r.Intn(8)
			for int64(c.Burst)*c.RateDen > 180*c.RateNum {
				c.Burst--
			}
		}
	default: // violates ExpiresIn*rate >= burst: tie only
		c.ExpiresIn = (1 + int64(r.Intn(int(minExp/c18Tick)+1))/2) * c18Tick
	}
	if c.RateNum == 0 && c.ExpiresIn == 0 {
		c.ExpiresIn = 3 * c18Tick
	}
	c.T0 = int64(r.Intn(1000)) * c18Tick
	c18Variants(r, c)
	n := 4 + r.Intn(40)
	if big {
		n = 20 + r.Intn(200)
	}
	two := c.RateNum > 0 && r.Intn(4) == 0
	if two {
		c18SecondStore(r, c, c18Tick)
		if c.hexp() && r.Intn(3) == 0 {
			c18Probe2(r, c, c18Tick, 1+r.Intn(3))
			return c
		}
	}
	if r.Intn(4) == 0 {
		c18Probe(r, c, c18Tick, 1+r.Intn(3))
	} else {
		c18History(r, c, c18Tick, n)
	}
	if two || r.Intn(6) == 0 {
		c18AssignRoutes(r, c)
	}
	return c
}

// arbitrary stream: rate p/q, arbitrary ns instants; oracle only
func c18GenArbitrary(r *rand.Rand, big bool) *c18Case {
	c := &c18Case{Exact: false}
	qs := []int64{1, 1, 1, 2, 3, 4, 5, 7, 8, 10, 16}
	c.RateDen = qs[r.Intn(len(qs))]
	switch r.Intn(5) {
	case 0:
		c.RateNum = int64(1 + r.Intn(9))
	case 1:
		c.RateNum = int64(1+r.Intn(20)) * c.RateDen
	case 2:
		c.RateNum = int64(1 + r.Intn(5000))
	default:
		c.RateNum = int64(1 + r.Intn(100))
	}
	switch r.Intn(5) {
	case 0:
		c.Burst = 0
	case 1:
		c.Burst = 1
	default:
		c.Burst = 1 + r.Intn(8)
	}
	if big && r.Intn(4) == 0 {
		c.Burst = 1 + r.Intn(30)
	}
	burst := c.effBurst()
	minExp := ceilDiv(burst*c.RateDen*c18Second, c.RateNum)
	if minExp == 0 {
		minExp = 1
	}
	switch x := r.Intn(10); {
	case x < 4:
		c.ExpiresIn = minExp
	case x < 6:
		c.ExpiresIn = minExp + int64(r.Intn(3))
	case x < 9:
		c.ExpiresIn = 2*minExp + int64(r.Intn(1000000))
	default:
		c.ExpiresIn = 0
		if r.Intn(3) != 0 {
			c.RateNum = int64(1 + r.Intn(6))
			c.Burst = 1 + r.Intn(8)
		}
		if !c.hexp() {
			c.ExpiresIn = minExp
		}
	}
	c.T0 = int64(r.Intn(1000000000))
	c18Variants(r, c)
	n := 4 + r.Intn(40)
	if big {
		n = 20 + r.Intn(150)
	}
	if r.Intn(4) == 0 {
		c18SecondStore(r, c, 1)
		if r.Intn(3) == 0 {
			c18Probe2(r, c, 1, 1+r.Intn(3))
			return c
		}
		if r.Intn(4) == 0 {
			c18Probe(r, c, 1, 1+r.Intn(3))
		} else {
			c18History(r, c, 1, n)
		}
		c18AssignRoutes(r, c)
		return c
	}
	if r.Intn(4) == 0 {
		// the F11 pattern: arrivals at floor(i/rate) for one identifier
		id := "a"
		if c.DefaultID {
			id = c18IPs[0]
		}
		off := int64(r.Intn(3))
		for i := int64(0); i < int64(n); i++ {
			t := c.T0 + off + i*c.RateDen*c18Second/c.RateNum
			c.Evs = append(c.Evs, c18Ev{T: t, Kind: c18PickKind(r, c), ID: id})
			if r.Intn(6) == 0 {
				c.Evs = append(c.Evs, c18Ev{T: t, Kind: c18Direct, ID: id})
			}
		}
		return c
	}
	if r.Intn(4) == 0 {
		c18Probe(r, c, 1, 1+r.Intn(3))
		return c
	}
	c18History(r, c, 1, n)
	return c
}

// exact stream at a rate above 2^-9 s^-1 * 10^9: here the dependency's truncation slack is
// visible with float-exact parameters (rate = 512c-1 per second, burst c): after draining
// the bucket, one tick later c-1 + 511/512 tokens have arrived and c requests are admitted.
func c18GenHighRate(r *rand.Rand) *c18Case {
	cc := int64(3815 + r.Intn(3))
	c := &c18Case{Exact: true, RateNum: 512*cc - 1, RateDen: 1, Burst: int(cc), ExpiresIn: int64(1+r.Intn(3)) * 512 * c18Tick}
	c.T0 = int64(r.Intn(100)) * c18Tick
	t := c.T0
	id := "a"
	for i := int64(0); i < cc+1; i++ {
		c.Evs = append(c.Evs, c18Ev{T: t, Kind: c18Direct, ID: id})
	}
	t += c18Tick
	for i := int64(0); i < cc+1; i++ {
		c.Evs = append(c.Evs, c18Ev{T: t, Kind: c18Direct, ID: id})
	}
	return c
}

// c18GenQuota: quota-style limiters: a handful of requests per hour / day / week, ExpiresIn of hours or days
// (ExpiresIn*rate >= burst), virtual-clock jumps of matching size.  Exact variant: rate k/2^j per second with
// j = 12..16 (compared with the model); arbitrary variant: k per 3600 / 86400 / 604800 s (oracle only).
func c18GenQuota(r *rand.Rand, big bool) *c18Case {
	c := &c18Case{Exact: r.Intn(2) == 0}
	unit := int64(1)
	if c.Exact {
		unit = c18Tick
		c.RateDen = int64(1) << uint(12+r.Intn(5))
		c.RateNum = int64(1 + r.Intn(8))
	} else {
		c.RateDen = []int64{3600, 86400, 604800}[r.Intn(3)]
		c.RateNum = int64(1 + r.Intn(10))
	}
	c.Burst = 1 + r.Intn(8)
	minExp := ceilDiv(ceilDiv(int64(c.Burst)*c.RateDen*c18Second, c.RateNum), unit) * unit
	switch r.Intn(4) {
	case 0:
		c.ExpiresIn = minExp
	case 1:
		c.ExpiresIn = minExp + int64(1+r.Intn(3))*unit
	case 2:
		c.ExpiresIn = 2 * minExp
	default:
		c.ExpiresIn = (minExp/(3600*c18Second) + 1) * 3600 * c18Second / unit * unit // whole hours
		if c.ExpiresIn < minExp {
			c.ExpiresIn = minExp
		}
	}
	c.T0 = int64(r.Intn(1000)) * c18Tick
	c18Variants(r, c)
	if c.Burst == 0 || c.ExpiresIn == 0 { // c18Variants may have switched to the defaults
		c.Burst, c.ExpiresIn, c.Simple = 1+r.Intn(8), 2*minExp, false
		for !c.hexp() {
			c.ExpiresIn *= 2
		}
	}
	n := 6 + r.Intn(30)
	if big {
		n = 20 + r.Intn(100)
	}
	if r.Intn(2) == 0 {
		c18Probe(r, c, unit, 1+r.Intn(3))
	} else {
		c18History(r, c, unit, n)
	}
	return c
}

func c18Gen(r *rand.Rand, tier string) []any {
	n := 3000
	big := false
	if tier == "thorough" {
		n = 40000
		big = true
	}
	var out []any
	for i := 0; i < n; i++ {
		if i%5 < 3 {
			out = append(out, c18GenExact(r, big && i%3 == 0))
		} else {
			out = append(out, c18GenArbitrary(r, big && i%3 == 0))
		}
	}
	hr := 1
	if tier == "thorough" {
		hr = 4
	}
	for i := 0; i < hr; i++ {
		out = append(out, c18GenHighRate(r))
	}
	for i := 0; i < n/12; i++ {
		out = append(out, c18GenSkew(r, big && i%3 == 0))
	}
	for i := 0; i < n/20; i++ {
		out = append(out, c18GenStress(r))
	}
	out = append(out, &c18Case{RateNum: 1, RateDen: 1, NilStore: true})
	for i := 0; i < n/15; i++ {
		out = append(out, c18GenQuota(r, big && i%3 == 0))
	}
	// many identifiers in one store
	if tier == "thorough" {
		for _, n := range []int{70000, 66000, 140000, 270000, 70000, 12000, 35000, 66000} {
			out = append(out, c18GenMany(r, n))
		}
		for i := 0; i < 12; i++ {
			out = append(out, c18GenManySmall(r, 300+r.Intn(2200)))
		}
	} else {
		out = append(out, c18GenMany(r, 66000+r.Intn(3000)), c18GenMany(r, 5000+r.Intn(15000)))
		for i := 0; i < 3; i++ {
			out = append(out, c18GenManySmall(r, 300+r.Intn(900)))
		}
	}
	// round 8 (appended: the earlier cases of a seed are unchanged): goroutines parked after Unlock while sweeps run
	for i := 0; i < n/8; i++ {
		out = append(out, c18GenSplit(r, big && i%3 == 0))
	}
	for i := 0; i < n/60; i++ {
		out = append(out, c18GenStressIdle(r))
	}
	return out
}

func c18Shrink(ci any) []any {
	c := ci.(*c18Case)
	var out []any
	if c.StressIDs > 0 {
		return nil // schedule dependent: keep the case as generated
	}
	if c.Many > 0 {
		// fewer identifiers (the failure may need a table size: keep the checkpoints' neighbourhood)
		for _, m := range []int{c.Many / 2, c.Many - c.Many/8, c.Many - 1000, c.Many - 1} {
			if m > 0 && m < c.Many {
				d := *c
				d.Many = m
				out = append(out, &d)
			}
		}
		return out
	}
	if c.NilStore {
		return nil
	}
	if c.Split {
		out = append(out, c18ShrinkSplit(c)...)
	}
	if c.CustomHandlers != 0 {
		d := *c
		d.CustomHandlers = 0
		out = append(out, &d)
	}
	if c.Before {
		d := *c
		d.Before = false
		out = append(out, &d)
	}
	if c.Ctor == 2 {
		d := *c
		d.Ctor = 0
		out = append(out, &d)
	}
	if c.Raw {
		d := *c
		d.Raw = false
		out = append(out, &d)
	}
	{
		// everything over the plain route, without the second store
		changed := c.S2 != nil
		d := *c
		d.S2 = nil
		d.Evs = append([]c18Ev(nil), c.Evs...)
		for i := range d.Evs {
			if d.Evs[i].R != 0 {
				d.Evs[i].R = 0
				changed = true
			}
		}
		if changed {
			out = append(out, &d)
		}
	}
	with := func(evs []c18Ev) *c18Case {
		d := *c
		d.Evs = evs
		return &d
	}
	n := len(c.Evs)
	if n > 8 {
		out = append(out, with(append([]c18Ev(nil), c.Evs[:n/2]...)))
		out = append(out, with(append([]c18Ev(nil), c.Evs[n/2:]...)))
		out = append(out, with(append([]c18Ev(nil), c.Evs[:n-n/4]...)))
	}
	// drop all events of one identifier
	seen := map[string]bool{}
	for _, ev := range c.Evs {
		if seen[ev.ID] {
			continue
		}
		seen[ev.ID] = true
		var evs []c18Ev
		for _, e2 := range c.Evs {
			if e2.ID != ev.ID {
				evs = append(evs, e2)
			}
		}
		if len(evs) > 0 && len(evs) < n {
			out = append(out, with(evs))
		}
	}
	if n <= 400 {
		for i := 0; i < n; i++ {
			evs := append(append([]c18Ev(nil), c.Evs[:i]...), c.Evs[i+1:]...)
			out = append(out, with(evs))
		}
	}
	// simplify kinds and routes
	for i, ev := range c.Evs {
		if ev.Kind != c18Direct && n <= 60 && (ev.R == 0 || ev.R == 2) {
			evs := append([]c18Ev(nil), c.Evs...)
			evs[i].Kind = c18Direct
			out = append(out, with(evs))
		}
		if ev.R != 0 && n <= 60 {
			evs := append([]c18Ev(nil), c.Evs...)
			evs[i].R = 0
			out = append(out, with(evs))
			if ev.R == 1 || ev.R == 3 {
				evs2 := append([]c18Ev(nil), c.Evs...)
				evs2[i].R = 2
				out = append(out, with(evs2))
			}
		}
	}
	return out
}

func init() {
	register(&Prop{
		ID:             "C18",
		Rule:           "3/5 exact stream (rate k/2^j, instants multiples of 2^-9 s: float64 arithmetic of x/time/rate is exact, decisions compared with the Lean model), 2/5 arbitrary stream (rate p/q, ns instants, incl. the F11 arrival pattern floor(i/rate): oracles only), plus high-rate exact cases where the 1 ns truncation slack shows, plus a skew stream (concurrent Store.Allow goroutines on a clock monotone in start order, some held by channels between their clock reading and AllowN while 1-3 later calls complete: out-of-order readings at the limiter, finding F19; compared with the model in AllowN order and checked against the allowance of C18_skew_bucket), plus a frozen-clock stress stream (4-15 fresh identifiers x 8-31 goroutines released together: at most / exactly burst admissions per identifier on any schedule; oracle only); a third of the middleware cases use custom Deny/ErrorHandlers (writing 429/403 and returning nil, or returning their own HTTPError); 1-4 identifiers (a fifth of the cases: 65-200 byte identifiers sharing their first 64+ bytes, differing only in the last byte, or one a prefix of the other), bursts at one instant, arrivals at/next to the refill interval, idle gaps at ExpiresIn-1,+0,+1 unit and beyond (cleanup), returns after being forgotten; ExpiresIn tight (=burst/rate), wider, default, or (exact stream only, tie only) violating ExpiresIn*rate>=burst; requests direct to Store.Allow or through the middleware (extractor error, skipper, default RealIP extractor); the middleware instances are built with RateLimiterWithConfig (with Skipper, or a hand-built config with nil Skipper; a quarter with a counted BeforeFunc) or with the convenience constructor RateLimiter(store); stores with NewRateLimiterMemoryStoreWithConfig or NewRateLimiterMemoryStore(rate); a quarter of the cases have a SECOND store with other parameters in the same process and send the requests over routes behind one limiter, a coarse limiter on the group + a strict one on the route, two limiters on one route in the other order, or two instances sharing one store (a sixth of the single-store cases use that route too), with direct calls to either store, plus a two-store expiry probe (an identifier is swept at one store, then first-time identifiers arrive at the other store with more than its burst); the Allow calls of every store are recorded: window / refusal / independence per store on its own trace, isolation = the decisions of every store re-run on a store of its own, middleware = the chain is consulted in order, each instance once, nothing behind the first refusal; one case per run checks that a config without Store is refused; plus a quota stream (1/15 of the cases): 1-10 requests per hour / day / week (exact variant: k/2^12..2^16 per second, compared with the model), burst 1-8, ExpiresIn of hours to weeks (tight, +units, doubled, whole hours), expiry probe and histories with virtual-clock jumps of that size; in a third of the cases the middleware instances get the *RateLimiterMemoryStore itself as Store (raw: optional capabilities the middleware type-asserts for are visible; one limiter per request path, the decision is read off the response) instead of the recording wrapper; plus a many-identifiers stream: 3 (thorough: 12) ordinary histories with 300-2500 first-time identifiers between the exhaustion and the return of early identifiers (compared with the model), and 2 (thorough: 8) big cases with 5k-69k (thorough: up to 270k) live identifiers in one store, 8 victims exhausted at T0 and re-probed when the table holds exactly 1000, 1024, 4096, 10000, 16384, 32768, 65535..65537, 100000, 131072, ... identifiers (oracle only: window / refusal on the victims, every first-time identifier admitted); plus (round 8, 1/8 of the cases, appended) a split stream: like the skew stream but with a SHORT ExpiresIn (tight = burst/rate, +1..3 ticks, doubled, wider; a twelfth violating the side condition: tie only), so that sweeps run while goroutines are parked between Unlock and AllowN: (a) identifiers spend their burst, stay away for ExpiresIn-1tick / ExpiresIn / +1 tick / more / twice, and return at the very moment at which a call (a newcomer's, another returning identifier's, their own) triggers the sweep and is parked after Unlock, go on sending while it is parked and after it has finished; (b) random histories over 1-4 identifiers with holds of 1-6 calls and clock steps of 0, a tick, the refill time, fractions and multiples of ExpiresIn; (c) goroutines held BEFORE their clock reading (late) for a fraction of ExpiresIn, about ExpiresIn, or twice that, while another identifier sweeps and the identifier itself returns (finding F24: lastSeen is older than the limiter's own clock); a held call parks in the Nth unlocked clock reading (N=1; 1/20: N=2, never reached in the code as it is); the schedule of locked parts and tails as played is compared with the split model C18.runS (limiters in a heap), oracles on the AllowN readings per identifier: window (readings in order: plain bound; out of order: allowance of C18_skew_bucket), refusal; plus a stress-at-the-sweep stream (identifiers spend their burst, the frozen clock jumps past ExpiresIn, 5-31 goroutines per identifier are released together: exactly burst admissions each whichever goroutine sweeps); non-trivial = some identifier is admitted again after a refusal, or returns after a gap longer than ExpiresIn, or (split) a sweep / a return after expiry happens while a goroutine is parked after Unlock; distinct = distinct model op lines / cases",
		New:            func() any { return &c18Case{} },
		Gen:            c18Gen,
		Run:            c18Run,
		Shrink:         c18Shrink,
		Mutate:         c18Mutate,
		Known:          c18Known,
		Tolerable:      c18Tolerable,
		Correspondence: "C18.runC / C18.stepC / C18.chainAllow (lean/EchoModel/C18.lean; one store: C18.run; overlapping calls: C18.runS / lockStep / tailStep) vs middleware.RateLimiterMemoryStore.Allow + RateLimiter / RateLimiterWithConfig instances on the injected clock",
	})
}
