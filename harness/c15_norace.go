//go:build !race

package main

const c15RaceBuild = false
