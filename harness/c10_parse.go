package main

// C10, stream (d): net.ParseIP itself.
//
// The C10 model no longer takes the parser as a parameter only: lean/EchoModel/C10Parse.lean defines
// parseIP (a transcription of net.ParseIP -> netip.ParseAddr of Go 1.23).  This stream ties it to the real
// function: case kind 3 is a list of tokens; the observation is net.ParseIP of every token (nil or the 16
// bytes), the model line is C10.parseIP of every token, in the same format.  Tokens:
//   - every token the request / table / concurrent cases of this run contain (peer hosts, raw and normalised
//     X-Forwarded-For entries, X-Real-Ip values, the attacker's replacement entries, table addresses),
//   - a fixed adversarial set (c10ParseAdversarial),
//   - structured families: every decimal field 0..300 with and without leading zeros in each position,
//     every group count x ellipsis position x embedded IPv4, IP.String of addresses with every zero-run shape,
//   - random edits (insert / delete / replace / duplicate a byte) of valid literals.
// (The request cases in addition make the model check parseIP against the parse table they ship: the model
// answers "parse-mismatch" when it disagrees on a token.)
//
// Model-free oracle per token: net.ParseIP agrees with netip.ParseAddr (error or zone <=> nil, As16
// otherwise); an accepted token has no surrounding white space, contains only [0-9a-fA-F.:], and
// IP.String of the result parses back to the same address.

import (
	"fmt"
	"math/rand"
	"net"
	"net/netip"
	"sort"
	"strings"
	"sync/atomic"
)

var c10ParseCount, c10ParseAccepted4, c10ParseAccepted6, c10ParseRejected, c10TableTokens atomic.Int64

var c10ParseAdversarial = []string{
	// IPv4: leading zeros, range, field count, dots
	"1.2.3.4", "0.0.0.0", "255.255.255.255", "01.2.3.4", "1.02.3.4", "1.2.003.4", "1.2.3.04", "00.0.0.0", "0.0.0.00", "000.0.0.0",
	"1.2.3.256", "256.1.1.1", "1.256.1.1", "1.1.256.1", "1.2.3.260", "1.2.3.300", "1.2.3.999", "1.2.3.1000", "1.2.3.0255", "999.1.1.1",
	"1.2.3.4.5", "1.2.3", "1.2", "1", "1.2.3.4.", ".1.2.3.4", "1..2.3", "1.2..3.4", "1.2.3..4", "...", "....", ".", "..", "1.2.3.",
	"+1.2.3.4", "1.+2.3.4", "-1.2.3.4", "1.2.3.-4", "1.2.3.4+", "0x1.2.3.4", "1.2.3.0x4", "a.b.c.d", "1.2.3.a", "f.2.3.4", "1.2.3.4a",
	"1e1.2.3.4", "1.2.3.4/32", "1.2.3.4:80", "[1.2.3.4]", "1,2,3,4", "1.2.3.4\n", "1.2.3.4\x00", "\x001.2.3.4", "1.2.3.4 ", " 1.2.3.4",
	"\t1.2.3.4", "1.2.3.4\t", "1 .2.3.4", "1. 2.3.4", "1.2.3.4\r\n", "\xc2\xa01.2.3.4", "1.2.3.4\xc2\xa0", "\xe3\x80\x801.2.3.4", "1.2.3.4\xe2\x80\x83",
	"4294967295", "16909060", "0", "127.1", "127.0.1", "0177.0.0.1", "1.2.3.4%eth0", "1.2.3.4%", "%1.2.3.4", "1.2.3%.4",
	"25\xef\xbc\x95.1.1.1", "\xd9\xa1.2.3.4", "1.2.3.\xd9\xa4", "\xef\xbc\x91.\xef\xbc\x92.\xef\xbc\x93.\xef\xbc\x94", "\xe0\xa5\xa7.2.3.4", "1\xcc\x81.2.3.4",
	"1.2.3.4\xff", "\xff", "\x80", "1.2.3.\xb2", // Latin-1 superscript two
	// IPv6: ellipsis
	"::", "::1", "1::", ":::", "::::", ":", "1:", ":1", "1::2", "1::2::3", "::1::", "1:::2", "::1:", ":1::", "1:2:3:4:5:6:7::", "::2:3:4:5:6:7:8",
	"1:2:3:4:5:6:7:8", "1:2:3:4:5:6:7:8:9", "1:2:3:4:5:6:7", "1:2:3:4:5:6:7:", ":1:2:3:4:5:6:7", "1:2:3:4:5:6:7:8:", ":1:2:3:4:5:6:7:8",
	"1:2:3:4:5:6:7:8::", "::1:2:3:4:5:6:7:8", "1:2:3:4::5:6:7:8", "1:2:3::5:6:7:8", "1::3:4:5:6:7:8", "1:2:3:4:5:6::8", "0:0:0:0:0:0:0:0", "0::0", "::0", "0::",
	"::0:0:0:0:0:0:0", "0:0:0:0:0:0:0::", "1:0:0:2:0:0:0:3", "1:0:0:0:2:0:0:3", "0:0:1:0:0:0:0:0", "1:0:1:0:1:0:1:0", "0:1:0:1:0:1:0:1",
	// IPv6: groups
	"12345::", "::12345", "1:2:3:4:5:6:7:12345", "00001::", "::00001", "0000::", "::0000", "::00000", "ffff::", "FFFF::", "fFfF::AbCd", "::abcdef", "g::", "::g", "::G",
	"1:2:3:4:5:6:7:g", "::x", "0x1::", "::-1", "::+1", "1:2:3:4:5:6:7:8 ", " ::1", "::1 ", ":: 1", "::\t", "\n::1", "::1\n", "::1\x00", "[::1]", "[::1", "::1]", "::1/128",
	"fe80::1%eth0", "fe80::1%", "fe80::1%%", "::%eth0", "%", "%eth0", "::1%0", "1:2:3:4:5:6:7:8%x", "fe80::%1.2.3.4", "fe80%eth0::1",
	"\xef\xbd\x86e80::1", "fe80::\xd9\xa1", "::\xef\xbc\x91", "f\xc3\xa980::1", "::\xb9", // full-width f, Arabic-Indic one, full-width one, e-acute, superscript one
	// IPv6: embedded IPv4
	"::ffff:1.2.3.4", "::FFFF:1.2.3.4", "::1.2.3.4", "::ffff:01.2.3.4", "::ffff:1.2.3.04", "::ffff:1.2.3.256", "::ffff:1.2.3", "::ffff:1.2.3.4.5", "::ffff:1.2.3.4.",
	"::ffff:.1.2.3", "::ffff:1..2.3", "::ffff:1.2.3.4:", "::ffff:1.2.3.4::", "::1.2.3.4:5", "1.2.3.4::", "1.2.3.4::1", "::ffff:1.2.3.4%eth0", "::ffff:1.2.3.4 ",
	"0:0:0:0:0:ffff:1.2.3.4", "0:0:0:0:0:0:1.2.3.4", "1:2:3:4:5:6:1.2.3.4", "1:2:3:4:5:6:7:1.2.3.4", "1:2:3:4:5:1.2.3.4", "1:2:3:4:5:6:7:8:1.2.3.4",
	"1:2:3:4:5::1.2.3.4", "1:2:3:4:5:6::1.2.3.4", "1:2:3:4:5:6:7::1.2.3.4", "1::1.2.3.4", "::1:2:3:4:5:1.2.3.4", "::1:2:3:4:5:6:1.2.3.4", "::1:2:3:4:5:6:7:1.2.3.4",
	"::a.2.3.4", "::1a.2.3.4", "::ffff:a.b.c.d", "::12345.1.1.1", "::0001.2.3.4", "::001.2.3.4", "::255.255.255.255", "::256.1.1.1", "::ffff:255.255.255.255",
	"::ffff:0.0.0.0", "::ffff:0:0", "::ffff:102:304", "::fffe:1.2.3.4", "ffff::1.2.3.4", "64:ff9b::1.2.3.4", "::1.2.3.4.5.6", "1.2.3.4:5::",
	// misc
	"", " ", "  ", "\t", "\n", "\x00", "localhost", "unknown", "_", "-", "+", "0x", "1e3", "٣", "::ffff", "ffff", "abcd", "a:b", "a.b", "1.2.3.4,5.6.7.8", "1.2.3.4 5.6.7.8",
}

func c10ParseFamilies() []string {
	var out []string
	// every decimal field 0..300 in each position, plain and with one / two leading zeros
	for v := 0; v <= 300; v++ {
		for pos := 0; pos < 4; pos++ {
			for _, f := range []string{"%d", "0%d", "00%d"} {
				fs := []string{"1", "2", "3", "4"}
				fs[pos] = fmt.Sprintf(f, v)
				if f != "%d" && (v%7 != pos && v > 12) {
					continue
				}
				out = append(out, strings.Join(fs, "."))
			}
		}
		out = append(out, fmt.Sprintf("::ffff:%d.%d.%d.%d", v, 300-v, v/2, v%256), fmt.Sprintf("::%d.0.0.%d", v%256, v))
	}
	// nb groups before / na groups after an (optional) ellipsis, optionally ending in an embedded IPv4
	grp := []string{"1", "a2", "0b3", "00c4", "d5e6", "0", "ffff", "F0"}
	for nb := 0; nb <= 9; nb++ {
		for na := 0; na <= 9; na++ {
			var b, a []string
			for i := 0; i < nb; i++ {
				b = append(b, grp[i%len(grp)])
			}
			for i := 0; i < na; i++ {
				a = append(a, grp[(i+3)%len(grp)])
			}
			for _, v4 := range []string{"", "9.8.7.6"} {
				aa := a
				if v4 != "" {
					aa = append(append([]string(nil), a...), v4)
				}
				out = append(out, strings.Join(b, ":")+"::"+strings.Join(aa, ":"))
				if nb > 0 && len(aa) > 0 {
					out = append(out, strings.Join(append(append([]string(nil), b...), aa...), ":"))
				}
			}
		}
	}
	// IP.String of every zero/non-zero pattern of the eight groups (zero-run compression: which run, ties)
	for m := 0; m < 256; m++ {
		ip := make(net.IP, 16)
		for g := 0; g < 8; g++ {
			if m&(1<<g) != 0 {
				ip[2*g], ip[2*g+1] = byte(0x10*g), byte(g+1)
				if g%3 == 0 {
					ip[2*g] = 0
				}
			}
		}
		s := ip.String()
		out = append(out, s, strings.ToUpper(s))
		// the uncompressed and a wrongly compressed spelling
		var gs []string
		for g := 0; g < 8; g++ {
			gs = append(gs, fmt.Sprintf("%x", int(ip[2*g])<<8|int(ip[2*g+1])))
		}
		out = append(out, strings.Join(gs, ":"), strings.Join(gs[:4], ":")+"::"+strings.Join(gs[4:], ":"))
	}
	out = append(out, strings.Repeat("1", 5000), strings.Repeat("1.", 3000), strings.Repeat("1:", 3000), strings.Repeat(":", 4000),
		"::"+strings.Repeat("0", 4000), "1.2.3."+strings.Repeat("0", 3000)+"4", strings.Repeat("0", 3000)+"::", "::1"+strings.Repeat(" ", 3000),
		strings.Repeat("a:", 7)+strings.Repeat("b", 2000), "1.2.3.4"+strings.Repeat("%", 2000), strings.Repeat("\xc2\xa0", 1500)+"::1")
	return out
}

func c10ParseEdits(r *rand.Rand, n int) []string {
	alphabet := "0123456789abcdefABCDEF.:.:%gGxX+- \t[]/,\x00\xc2\xa0\xff٣"
	var out []string
	for i := 0; i < n; i++ {
		var s string
		switch r.Intn(5) {
		case 0:
			s = c10RandV4(r)
		case 1:
			s = c10RandV6(r)
		case 2:
			ip := make(net.IP, 16)
			for k := range ip {
				if r.Intn(3) != 0 {
					ip[k] = byte(r.Intn(256))
				}
				if r.Intn(4) == 0 {
					ip[k] &= 0x0f
				}
			}
			s = ip.String()
		case 3:
			s = c10Pick(r, c10ParseAdversarial)
		default:
			s = c10Pick(r, [][]string{c10Public, c10LoopbackS, c10LinkLocalS, c10PrivateS, c10Garbage}[r.Intn(5)])
		}
		out = append(out, s)
		b := []byte(s)
		for k := 1 + r.Intn(2); k > 0; k-- {
			p := 0
			if len(b) > 0 {
				p = r.Intn(len(b) + 1)
			}
			ch := alphabet[r.Intn(len(alphabet))]
			switch r.Intn(4) {
			case 0: // insert
				b = append(b[:p:p], append([]byte{ch}, b[p:]...)...)
			case 1: // delete
				if p < len(b) {
					b = append(b[:p:p], b[p+1:]...)
				}
			case 2: // replace
				if p < len(b) {
					b = append(b[:p:p], append([]byte{ch}, b[p+1:]...)...)
				}
			default: // duplicate
				if p < len(b) {
					b = append(b[:p+1:p+1], b[p:]...)
				}
			}
		}
		out = append(out, string(b))
	}
	return out
}

// c10CaseTokens: every text of a generated case that the extractors may hand to net.ParseIP, raw and normalised.
func c10CaseTokens(c *c10Case, add func(string)) {
	req := func(remote string, real, xff []string) {
		h := c10Host(remote)
		add(h)
		add(c10Norm(h))
		for _, v := range real {
			add(v)
			add(c10Strip(v))
		}
		if len(xff) > 0 {
			for _, t := range c10Entries(xff) {
				add(t)
				add(c10Norm(t))
			}
		}
	}
	switch c.Kind {
	case 1:
		for _, a := range c.Addrs {
			add(a)
		}
		return
	case 3:
		return
	}
	if c.Kind == 0 {
		req(string(c.Remote), unlat1s(c.Real), unlat1s(c.XFF))
	}
	for _, a := range c.Alt {
		for _, t := range unlat1s(a) {
			add(t)
			add(c10Norm(t))
		}
	}
	for _, a := range c.AltR {
		add(string(a))
		add(c10Strip(string(a)))
	}
	for _, m := range c.More {
		req(string(m.Remote), unlat1s(m.Real), unlat1s(m.XFF))
	}
	if c.Phase2 != nil {
		for _, m := range c.Phase2.Reqs {
			req(string(m.Remote), unlat1s(m.Real), unlat1s(m.XFF))
		}
	}
}

func c10GenParse(r *rand.Rand, tier string, cases []any) []any {
	seen := map[string]bool{}
	var toks []string
	add := func(s string) {
		if !seen[s] {
			seen[s] = true
			toks = append(toks, s)
		}
	}
	for _, s := range c10ParseAdversarial {
		add(s)
	}
	for _, s := range c10ParseFamilies() {
		add(s)
	}
	n := 6000
	if tier == "thorough" {
		n = 60000
	}
	for _, s := range c10ParseEdits(r, n) {
		add(s)
	}
	for _, ci := range cases {
		c10CaseTokens(ci.(*c10Case), add)
	}
	var out []any
	const chunk = 64
	for i := 0; i < len(toks); i += chunk {
		j := i + chunk
		if j > len(toks) {
			j = len(toks)
		}
		out = append(out, &c10Case{Kind: 3, Toks: lat1s(toks[i:j])})
	}
	return out
}

func c10ParseOK(c byte) bool {
	return c >= '0' && c <= '9' || c >= 'a' && c <= 'f' || c >= 'A' && c <= 'F' || c == '.' || c == ':'
}

func c10RunParse(c *c10Case) Result {
	oracle := ""
	fail := func(format string, a ...any) {
		if oracle == "" {
			oracle = fmt.Sprintf(format, a...)
		}
	}
	wire := []string{"3", wInt(len(c.Toks))}
	obs := []string{wInt(len(c.Toks))}
	tagset := map[string]bool{"parse-stream": true}
	acc, rej := 0, 0
	for _, lt := range c.Toks {
		t := string(lt)
		wire = append(wire, wStr(t))
		ip := net.ParseIP(t)
		c10ParseCount.Add(1)
		a, err := netip.ParseAddr(t)
		switch {
		case ip == nil:
			obs = append(obs, "0")
			rej++
			c10ParseRejected.Add(1)
			if err == nil && a.Zone() == "" {
				fail("net.ParseIP(%q) = nil but netip.ParseAddr accepts it without a zone", t)
			}
			switch {
			case strings.Contains(t, "%"):
				tagset["parse-reject-zone"] = true
			case strings.TrimSpace(t) != t:
				tagset["parse-reject-space"] = true
			case len(t) > 0 && strings.IndexFunc(t, func(r rune) bool { return r > 0x7f || !c10ParseOK(byte(r)) }) < 0:
				tagset["parse-reject-wellformed-alphabet"] = true
			default:
				tagset["parse-reject-other"] = true
			}
		default:
			obs = append(obs, "1", wBytes(ip))
			acc++
			if len(ip) != 16 {
				fail("net.ParseIP(%q) has %d bytes", t, len(ip))
			}
			if err != nil || a.Zone() != "" {
				fail("net.ParseIP(%q) accepted but netip.ParseAddr: err=%v zone=%q", t, err, a.Zone())
			} else if b := a.As16(); string(b[:]) != string(ip) {
				fail("net.ParseIP(%q) = %v, netip.ParseAddr gives %v", t, []byte(ip), b)
			}
			if strings.TrimSpace(t) != t {
				fail("net.ParseIP accepted %q with surrounding white space", t)
			}
			for i := 0; i < len(t); i++ {
				if !c10ParseOK(t[i]) {
					fail("net.ParseIP accepted %q containing byte %#x", t, t[i])
				}
			}
			if back := net.ParseIP(ip.String()); back == nil || !back.Equal(ip) || string(back) != string(ip) {
				fail("IP.String of ParseIP(%q) = %q does not parse back to the same 16 bytes", t, ip.String())
			}
			if ip.To4() != nil {
				c10ParseAccepted4.Add(1)
				if strings.Contains(t, ":") {
					tagset["parse-accept-mapped-v6-text"] = true
				} else {
					tagset["parse-accept-v4"] = true
				}
			} else {
				c10ParseAccepted6.Add(1)
				switch {
				case strings.Contains(t, "."):
					tagset["parse-accept-v6-embedded-v4"] = true
				case strings.Contains(t, "::"):
					tagset["parse-accept-v6-ellipsis"] = true
				default:
					tagset["parse-accept-v6-full"] = true
				}
				if ip.String() == t {
					tagset["parse-accept-v6-canonical"] = true
				}
			}
		}
	}
	var tags []string
	for k := range tagset {
		tags = append(tags, k)
	}
	sort.Strings(tags)
	return Result{Ops: strings.Join(wire, " "), Obs: strings.Join(obs, " "), Oracle: oracle, Tags: tags, Nontrivial: acc > 0 && rej > 0}
}

func c10ParseExtra(tier string, seed int64) map[string]any {
	return map[string]any{
		"extra_parse_stream": map[string]any{
			"tokens_compared_with_parseIP": c10ParseCount.Load(),
			"accepted_ipv4_or_mapped":      c10ParseAccepted4.Load(),
			"accepted_ipv6":                c10ParseAccepted6.Load(),
			"rejected":                     c10ParseRejected.Load(),
			"tokens_in_request_case_parse_tables_checked_by_model": c10TableTokens.Load(),
		},
	}
}
