package main

// C04 — middleware onion: order, exactly-once, Pre-before-routing, group scoping.
// Real code: Echo.Pre/Use/Host/Group/Add, Group.Use/Group/Add, e.ServeHTTP.
// Model: C04.serve ∘ C04.run (lean/EchoModel/C04.lean).

import (
	"context"
	"fmt"
	"io"
	"io/fs"
	"math/rand"
	"net/http"
	"net/http/httptest"
	"strconv"
	"strings"
	"time"

	"github.com/labstack/echo/v4"
)

type c04Op struct {
	Kind   string `json:"kind"` // pre use host group groupUse add appWrites
	ID     int    `json:"id,omitempty"`
	From   string `json:"from,omitempty"` // pre: rewrite rule
	To     string `json:"to,omitempty"`
	FromM  string `json:"from_method,omitempty"` // pre: method rewrite rule (like middleware.MethodOverride)
	ToM    string `json:"to_method,omitempty"`
	FromH  string `json:"from_host,omitempty"` // pre: Host rewrite rule
	ToH    string `json:"to_host,omitempty"`
	Name   string `json:"name,omitempty"`   // host
	Parent int    `json:"parent,omitempty"` // group: -1 = echo
	Prefix string `json:"prefix,omitempty"`
	G      int    `json:"g,omitempty"` // groupUse / add: group index, -1 = echo
	Method string `json:"method,omitempty"`
	Path   string `json:"path,omitempty"`
	Hid    int    `json:"hid,omitempty"`
	Fails  bool   `json:"fails,omitempty"`
	Mws    []int  `json:"mws,omitempty"`
	// add: which registration helper is used ("" Add, "verb" GET/POST/..., "match" Match with one method,
	// "filefs" FileFS, "staticfs" StaticFS).  All of them must scope the route exactly like Add does.
	Via string `json:"via,omitempty"`
}

type c04Case struct {
	Ops []c04Op `json:"ops"`
	Req rReq    `json:"req"`
	// Flavour: what the request looks like apart from host, method and path - none of it has a say in which
	// layers run.  0 plain, 1 its context is already cancelled, 2 its deadline has already passed, 3 websocket
	// handshake headers, 4 HTTP/1.0 with Connection: close, 5 a body with a declared length and Expect
	Flavour int `json:"flavour,omitempty"`
	// CancelAt: the middleware with this id, when it is entered, replaces the request by one whose context is
	// cancelled (a timeout middleware whose budget is used up); 0 = none
	CancelAt int `json:"cancel_at,omitempty"`
}

var c04FlavourNames = []string{"plain", "ctx-cancelled", "ctx-deadline-passed", "upgrade-headers", "http10-close", "body-expect"}

func c04Flavoured(req *http.Request, f int) *http.Request {
	switch f {
	case 1:
		cctx, cancel := context.WithCancel(req.Context())
		cancel()
		req = req.WithContext(cctx)
	case 2:
		cctx, cancel := context.WithDeadline(req.Context(), time.Unix(1, 0))
		_ = cancel // (the context is done already; it is released with the request)
		req = req.WithContext(cctx)
	case 3:
		req.Header.Set("Upgrade", "websocket")
		req.Header.Set("Connection", "Upgrade")
	case 4:
		req.Proto, req.ProtoMajor, req.ProtoMinor = "HTTP/1.0", 1, 0
		req.Header.Set("Connection", "close")
		req.Close = true
	case 5:
		req.Body = io.NopCloser(strings.NewReader("payload"))
		req.ContentLength = 7
		req.Header.Set("Content-Type", "text/plain")
		req.Header.Set("Expect", "100-continue")
	}
	return req
}

func c04Ints(l []int) string {
	parts := []string{wInt(len(l))}
	for _, x := range l {
		parts = append(parts, wInt(x))
	}
	return strings.Join(parts, " ")
}

func c04OptInt(i int) string {
	if i < 0 {
		return "0"
	}
	return "1 " + wInt(i)
}

// the order in which Echo.Any / Group.Any register their eleven routes (echo.go: `methods`); the model sees
// an `any` registration as these eleven `add` ops with one handler id
var c04AnyMethods = []string{"CONNECT", "DELETE", "GET", "HEAD", "OPTIONS", "PATCH", "POST", "PROPFIND", "PUT", "TRACE", "REPORT"}

func c04Wire(c *c04Case) string {
	n := len(c.Ops)
	for _, o := range c.Ops {
		if o.Kind == "add" && o.Via == "any" {
			n += len(c04AnyMethods) - 1
		}
		if o.Kind == "appWrites" {
			n-- // what the application does with its own memory is no registration: the model does not see it
		}
	}
	parts := []string{wInt(n)}
	for _, o := range c.Ops {
		switch o.Kind {
		case "pre":
			if o.From != "" {
				parts = append(parts, "0", wInt(o.ID), "1", wStr(o.From), wStr(o.To))
			} else {
				parts = append(parts, "0", wInt(o.ID), "0")
			}
			if o.FromM != "" {
				parts = append(parts, "1", wStr(o.FromM), wStr(o.ToM))
			} else {
				parts = append(parts, "0")
			}
			if o.FromH != "" {
				parts = append(parts, "1", wStr(o.FromH), wStr(o.ToH))
			} else {
				parts = append(parts, "0")
			}
		case "use":
			parts = append(parts, "1", wInt(o.ID))
		case "host":
			parts = append(parts, "2", wStr(o.Name), c04Ints(o.Mws))
		case "group":
			parts = append(parts, "3", c04OptInt(o.Parent), wStr(o.Prefix), c04Ints(o.Mws))
		case "groupUse":
			parts = append(parts, "4", wInt(o.G), c04Ints(o.Mws))
		case "add":
			if o.Via == "any" {
				for _, m := range c04AnyMethods {
					parts = append(parts, "5", c04OptInt(o.G), wStr(m), wStr(o.Path), wInt(o.Hid), wBool(o.Fails), c04Ints(o.Mws))
				}
				continue
			}
			parts = append(parts, "5", c04OptInt(o.G), wStr(o.Method), wStr(o.Path), wInt(o.Hid), wBool(o.Fails), c04Ints(o.Mws))
		}
	}
	parts = append(parts, wStr(c.Req.Host), wStr(c.Req.Method), wStr(c.Req.Path))
	return strings.Join(parts, " ")
}

type c04GroupInfo struct {
	host, prefix string
	creation     []int // middleware the group had when it was created (inherited + own)
	current      []int // its middleware list now (creation + what later Use calls added)
	own          []int // ids introduced by this group's own ops
	ancestors    []int // group indices of the ancestors
}

func c04Run(ci any) Result {
	c := ci.(*c04Case)
	var trace []string
	e := echo.New()
	e.Logger.SetOutput(nopWriter{})
	var preRule c04Op
	flavoured := false // the request being served is the one of the case (not a warm-up, not the plain twin)
	mw := func(id int, from, to string) echo.MiddlewareFunc {
		rule := preRule
		isPre := preRule.Kind == "pre"
		preRule = c04Op{}
		return func(next echo.HandlerFunc) echo.HandlerFunc {
			return func(ctx echo.Context) error {
				trace = append(trace, "I"+strconv.Itoa(id))
				if flavoured && id == c.CancelAt && !isPre {
					// (not for Pre middleware: ServeHTTP routes on the request object it was called with, so a Pre
					// middleware that REPLACES the request hides the rewrites of the Pre middleware after it from the
					// router - that is about SetRequest, not about a cancelled context)
					cctx, cancel := context.WithCancel(ctx.Request().Context())
					cancel()
					ctx.SetRequest(ctx.Request().WithContext(cctx))
				}
				if from != "" && ctx.Request().URL.Path == from {
					ctx.Request().URL.Path = to
					ctx.Request().URL.RawPath = ""
				}
				if rule.FromM != "" && ctx.Request().Method == rule.FromM {
					ctx.Request().Method = rule.ToM
				}
				if rule.FromH != "" && ctx.Request().Host == rule.FromH {
					ctx.Request().Host = rule.ToH
				}
				err := next(ctx)
				if err != nil {
					trace = append(trace, "O"+strconv.Itoa(id)+"e1")
				} else {
					trace = append(trace, "O"+strconv.Itoa(id)+"e0")
				}
				return err
			}
		}
	}
	// All middleware lists the application hands to echo are windows of ONE backing array with spare capacity behind
	// each of them (an application that builds its lists from a shared slice): if echo keeps a list it was given and
	// later appends to it, it writes into the application's memory, i.e. into the lists handed over afterwards.
	arena := make([]echo.MiddlewareFunc, 0, 4096)
	var copied [][2]int // the windows handed to APIs that take a copy of the list (everything on groups)
	mwsK := func(ids []int, groupLevel bool) []echo.MiddlewareFunc {
		start := len(arena)
		for _, id := range ids {
			arena = append(arena, mw(id, "", ""))
		}
		if groupLevel && len(ids) > 0 {
			copied = append(copied, [2]int{start, len(arena)})
		}
		return arena[start:len(arena)]
	}
	mws := func(ids []int) []echo.MiddlewareFunc { return mwsK(ids, true) }
	scribbles := 0
	var groups []*echo.Group
	var infos []c04GroupInfo
	routeGroup := map[int]int{} // hid -> group index (-1 echo)
	seenPath := ""
	e.Use(func(next echo.HandlerFunc) echo.HandlerFunc {
		return func(ctx echo.Context) error {
			err := next(ctx)
			seenPath = ctx.Path()
			return err
		}
	})
	panicked := ""
	warmed := false
	func() {
		defer func() {
			if r := recover(); r != nil {
				panicked = fmt.Sprint(r)
			}
		}()
		for _, o := range c.Ops {
			switch o.Kind {
			case "pre":
				preRule = o
				e.Pre(mw(o.ID, o.From, o.To))
			case "use":
				e.Use(mw(o.ID, "", ""))
			case "host":
				g := e.Host(o.Name, mws(o.Mws)...)
				groups = append(groups, g)
				infos = append(infos, c04GroupInfo{host: o.Name, creation: append([]int{}, o.Mws...), current: append([]int{}, o.Mws...), own: append([]int{}, o.Mws...)})
			case "group":
				if o.Parent < 0 {
					groups = append(groups, e.Group(o.Prefix, mws(o.Mws)...))
					infos = append(infos, c04GroupInfo{prefix: o.Prefix, creation: append([]int{}, o.Mws...), current: append([]int{}, o.Mws...), own: append([]int{}, o.Mws...)})
				} else {
					p := infos[o.Parent]
					groups = append(groups, groups[o.Parent].Group(o.Prefix, mws(o.Mws)...))
					// the parent's list at this moment is inherited: recompute from the ops so far
					// the sub-group inherits the parent's list as it is at this moment
					infos = append(infos, c04GroupInfo{host: p.host, prefix: p.prefix + o.Prefix,
						creation: append(append([]int{}, p.current...), o.Mws...),
						current:  append(append([]int{}, p.current...), o.Mws...), own: append([]int{}, o.Mws...),
						ancestors: append(append([]int{}, p.ancestors...), o.Parent)})
				}
			case "groupUse":
				groups[o.G].Use(mws(o.Mws)...)
				infos[o.G].own = append(infos[o.G].own, o.Mws...)
				infos[o.G].current = append(infos[o.G].current, o.Mws...)
			case "add":
				hid := o.Hid
				fails := o.Fails
				h := func(ctx echo.Context) error {
					trace = append(trace, "H"+strconv.Itoa(hid))
					if fails {
						if hid%2 == 0 {
							// the handler has already written (part of) its answer when it fails: the error must
							// still be seen by every layer above
							ctx.String(http.StatusOK, "partial")
						}
						return echo.NewHTTPError(http.StatusTeapot, "handler failed")
					}
					return ctx.NoContent(http.StatusOK)
				}
				routeGroup[hid] = o.G
				c04Register(e, groups, o, h, mwsK(o.Mws, o.G >= 0))
			case "appWrites":
				// the application re-uses its array: every list it handed to a group (at creation, by Use, with a
				// route on a group - echo works on copies of those) is overwritten, and so is the room behind them
				for _, w := range copied {
					for i := w[0]; i < w[1]; i++ {
						scribbles++
						arena[i] = mw(900+scribbles, "", "")
					}
				}
				spare := arena[len(arena):cap(arena)]
				for i := 0; i < 8 && i < len(spare); i++ {
					scribbles++
					spare[i] = mw(900+scribbles, "", "")
				}
			}
		}
	}()
	res := Result{Ops: c04Wire(c)}
	if panicked != "" {
		res.Obs = "P"
		res.Oracle = "registration panicked: " + panicked
		return res
	}
	status := 0
	fileBody := ""
	twin := ""
	func() {
		defer func() {
			if r := recover(); r != nil {
				panicked = fmt.Sprint(r)
			}
		}()
		if (len(c.Req.Path)+len(c.Ops))%2 == 0 {
			// the application has just served a request for every registered route (all hosts): what those left in
			// the pooled context (handler, path, middleware chain) must not take part in answering this one
			for _, o := range c.Ops {
				if o.Kind != "add" {
					continue
				}
				full, host := o.Path, ""
				if o.G >= 0 && o.G < len(infos) {
					full, host = infos[o.G].prefix+o.Path, infos[o.G].host
				}
				pm := o.Method
				if o.Via == "any" {
					pm = "GET"
				}
				full = strings.ReplaceAll(strings.ReplaceAll(full, ":id", "7"), "*", "w")
				e.ServeHTTP(httptest.NewRecorder(), rNewRequest(rReq{Method: pm, Path: full, Host: host}))
			}
			trace = nil
			warmed = true
		}
		rec := httptest.NewRecorder()
		flavoured = true
		e.ServeHTTP(rec, c04Flavoured(rNewRequest(c.Req), c.Flavour))
		flavoured = false
		status = rec.Code
		if status == http.StatusOK {
			fileBody = rec.Body.String()
		}
		if c.Flavour != 0 || c.CancelAt != 0 {
			// the twin: the same host, method and path as a plain request to the same application
			first, sp := trace, seenPath
			defer func() { seenPath = sp }()
			trace = nil
			rec2 := httptest.NewRecorder()
			e.ServeHTTP(rec2, rNewRequest(c.Req))
			if a, b := strings.Join(first, " "), strings.Join(trace, " "); a != b || rec2.Code != status {
				name := "middleware " + strconv.Itoa(c.CancelAt) + " cancels the request context"
				if c.Flavour > 0 && c.Flavour < len(c04FlavourNames) {
					name = c04FlavourNames[c.Flavour]
				}
				twin = fmt.Sprintf("%s %q (%s) ran [%s] status %d, the same request without that ran [%s] status %d: what runs depends on host, method and path only", c.Req.Method, c.Req.Path, name, a, status, b, rec2.Code)
			}
			trace = first
		}
	}()
	if panicked != "" {
		res.Obs = "P"
		res.Oracle = "serving panicked: " + panicked
		return res
	}
	// insert the router's own handler (not instrumentable) where the innermost handler sits
	hasH := false
	for _, t := range trace {
		if t[0] == 'H' {
			hasH = true
		}
	}
	if !hasH && strings.HasPrefix(fileBody, "FILE") {
		// a file handler of the framework answered (FileFS / StaticFS route): it stands for handler <hid>
		at := len(trace)
		for i, t := range trace {
			if t[0] == 'O' {
				at = i
				break
			}
		}
		trace = append(trace[:at:at], append([]string{"H" + fileBody[4:]}, trace[at:]...)...)
		hasH = true
	}
	if !hasH {
		at := len(trace)
		for i, t := range trace {
			if t[0] == 'O' {
				at = i
				break
			}
		}
		trace = append(trace[:at:at], append([]string{"R" + strconv.Itoa(status)}, trace[at:]...)...)
	}
	res.Obs = strings.Join(trace, " ")

	// ---- model-free oracle ----
	fail := func(s string) {
		if res.Oracle == "" {
			res.Oracle = s
		}
	}
	if twin != "" {
		fail(twin)
	}
	var ins, outs []int
	innerErr := false
	handlerHid := -1
	phase := 0 // 0 going in, 1 after handler
	for _, t := range trace {
		switch t[0] {
		case 'I':
			id, _ := strconv.Atoi(t[1:])
			if phase != 0 {
				fail("a middleware went in after the handler ran: " + res.Obs)
			}
			ins = append(ins, id)
		case 'H', 'R':
			if phase != 0 {
				fail("two handlers ran: " + res.Obs)
			}
			phase = 1
			if t[0] == 'H' {
				handlerHid, _ = strconv.Atoi(t[1:])
			} else {
				innerErr = t != "R204"
			}
		case 'O':
			i := strings.Index(t, "e")
			id, _ := strconv.Atoi(t[1:i])
			if phase != 1 {
				fail("a middleware unwound before the handler ran: " + res.Obs)
			}
			outs = append(outs, id)
			if handlerHid >= 0 {
				for _, o := range c.Ops {
					if o.Kind == "add" && o.Hid == handlerHid {
						innerErr = o.Fails
					}
				}
			}
			if (t[i+1] == '1') != innerErr {
				fail(fmt.Sprintf("layer %d saw error=%v, the handler returned error=%v", id, t[i+1] == '1', innerErr))
			}
		}
	}
	seen := map[int]int{}
	for _, id := range ins {
		seen[id]++
		if seen[id] > 1 {
			fail(fmt.Sprintf("middleware %d ran twice: %s", id, res.Obs))
		}
		if id > 900 {
			fail(fmt.Sprintf("a middleware (%d) ran that the application never registered: it wrote it into its own array after echo had been given the list: %s", id, res.Obs))
		}
	}
	if len(ins) != len(outs) {
		fail("number of ins and outs differ: " + res.Obs)
	} else {
		for i := range ins {
			if ins[i] != outs[len(outs)-1-i] {
				fail("unwinding is not the reverse of going in: " + res.Obs)
				break
			}
		}
	}
	// Pre and Use first, in registration order (Pre before Use)
	var preIDs, useIDs []int
	for _, o := range c.Ops {
		if o.Kind == "pre" {
			preIDs = append(preIDs, o.ID)
		} else if o.Kind == "use" {
			useIDs = append(useIDs, o.ID)
		}
	}
	want := append(append([]int{}, preIDs...), useIDs...)
	if len(ins) < len(want) {
		fail(fmt.Sprintf("Pre/Use middleware %v did not all run: %s", want, res.Obs))
	} else {
		for i := range want {
			if ins[i] != want[i] {
				fail(fmt.Sprintf("Pre then Use order violated: want prefix %v, trace %s", want, res.Obs))
				break
			}
		}
	}
	// group scoping
	effPath, effMethod, effHost := c.Req.Path, c.Req.Method, c.Req.Host
	for _, o := range c.Ops {
		if o.Kind == "pre" && o.From != "" && effPath == o.From {
			effPath = o.To
		}
		if o.Kind == "pre" && o.FromM != "" && effMethod == o.FromM {
			effMethod = o.ToM
		}
		if o.Kind == "pre" && o.FromH != "" && effHost == o.FromH {
			effHost = o.ToH
		}
	}
	// the handler that ran must be registered for the method as the Pre chain left it
	if handlerHid >= 0 {
		for _, o := range c.Ops {
			if o.Kind == "add" && o.Hid == handlerHid && o.Method != effMethod && o.Via != "any" && o.Method != routeNotFound {
				fail(fmt.Sprintf("handler %d is registered for %s but ran for a request whose method after the Pre chain is %s", handlerHid, o.Method, effMethod))
			}
		}
	}
	// "middleware added to a group after a route was registered does not apply to that route": an id handed to a
	// group (at creation or by Use) in an op that comes after the registration of the handler that ran must not
	// have gone in.  (Echo-level Pre/Use apply to every route whenever they were added.)
	if handlerHid >= 0 {
		at := -1
		for i, o := range c.Ops {
			if o.Kind == "add" && o.Hid == handlerHid {
				at = i
			}
		}
		for i, o := range c.Ops {
			if at >= 0 && i > at && (o.Kind == "group" || o.Kind == "groupUse" || o.Kind == "host" || o.Kind == "add") {
				for _, id := range o.Mws {
					if seen[id] > 0 {
						fail(fmt.Sprintf("middleware %d was registered (op %d, %s) after the route of handler %d (op %d) but ran for it: %s", id, i, o.Kind, handlerHid, at, res.Obs))
					}
				}
			}
		}
	}
	hostRegistered := func(h string) bool {
		for _, o := range c.Ops {
			if o.Kind == "host" && o.Name == h {
				return true
			}
		}
		return false
	}
	reqHost := ""
	if hostRegistered(effHost) {
		reqHost = effHost
	}
	inTrace := func(id int) bool { return seen[id] > 0 }
	for gi, g := range infos {
		under := g.host == reqHost && (effPath == g.prefix || strings.HasPrefix(effPath, g.prefix+"/") || (g.prefix == "" && strings.HasPrefix(effPath, "/")))
		if !under {
			// never for requests outside the prefix or for another host
			outside := g.host != reqHost || !strings.HasPrefix(effPath, g.prefix)
			if outside {
				for _, id := range g.own {
					if inTrace(id) {
						fail(fmt.Sprintf("middleware %d of group %d (host %q prefix %q) ran for %q on host %q", id, gi, g.host, g.prefix, effPath, effHost))
					}
				}
			}
			continue
		}
		if len(g.current) == 0 {
			continue
		}
		// claimed by a route registered outside the group?
		inside := false
		if handlerHid >= 0 {
			rg := routeGroup[handlerHid]
			for rg >= 0 {
				if rg == gi {
					inside = true
					break
				}
				if len(infos[rg].ancestors) == 0 {
					break
				}
				rg = infos[rg].ancestors[len(infos[rg].ancestors)-1]
			}
		} else {
			// no user handler: a 404/405 — it is inside the group unless the pattern that answered is the
			// catch-all of a group that is not this group or one of its descendants
			inside = true
			for gj, h := range infos {
				if gj == gi || len(h.current) == 0 {
					continue
				}
				desc := false
				for _, a := range h.ancestors {
					if a == gi {
						desc = true
					}
				}
				hp := h.prefix
				if hp == "" {
					hp = "/"
				}
				if !desc && h.host == g.host && (seenPath == hp || seenPath == h.prefix+"/*") {
					inside = false
				}
			}
		}
		if inside {
			for _, id := range g.creation {
				if !inTrace(id) {
					fail(fmt.Sprintf("group %d (host %q prefix %q) middleware %d did not run for %s %q (pattern %q, trace %s)", gi, g.host, g.prefix, id, effMethod, effPath, seenPath, res.Obs))
				}
			}
			// "including requests that end in 404 inside the group": a request no ordinary route answers and that
			// ends at one of the two patterns Group.Use keeps registered for the misses of this group (prefix and
			// prefix/*) gets the group's whole list - every Use call so far re-registered them - also when the
			// application put a not-found handler of its own on such a pattern, before or after a Use call.
			// (Only when no other group has the same host and prefix: otherwise the two share the patterns.)
			miss := handlerHid < 0 && status == http.StatusNotFound
			if handlerHid >= 0 {
				for _, o := range c.Ops {
					if o.Kind == "add" && o.Hid == handlerHid {
						miss = o.Method == routeNotFound
					}
				}
			}
			gp := g.prefix
			if gp == "" {
				gp = "/"
			}
			shared := false
			for gj, h := range infos {
				if gj != gi && h.host == g.host && h.prefix == g.prefix {
					shared = true
				}
			}
			if miss && !shared && (seenPath == gp || seenPath == g.prefix+"/*") {
				res.Tags = append(res.Tags, "miss-at-group-catch-all")
				for _, id := range g.current {
					if !inTrace(id) {
						fail(fmt.Sprintf("group %d (host %q prefix %q) middleware %d did not run for %s %q, which ends as a miss at the group's own pattern %q (trace %s)", gi, g.host, g.prefix, id, effMethod, effPath, seenPath, res.Obs))
					}
				}
			}
		}
	}
	res.Nontrivial = len(ins) >= 2 && len(infos) > 0
	res.Tags = append(res.Tags, fmt.Sprintf("layers-%d", minInt(len(ins), 6)))
	if c.Flavour > 0 && c.Flavour < len(c04FlavourNames) {
		res.Tags = append(res.Tags, "request-"+c04FlavourNames[c.Flavour])
	}
	if c.CancelAt != 0 {
		res.Tags = append(res.Tags, "middleware-cancels-context")
	}
	if warmed {
		res.Tags = append(res.Tags, "after-requests-to-every-route")
	}
	if hasH {
		res.Tags = append(res.Tags, "user-handler")
	} else {
		res.Tags = append(res.Tags, "router-"+strconv.Itoa(status))
	}
	if effPath != c.Req.Path {
		res.Tags = append(res.Tags, "pre-rewrite")
	}
	return res
}

// c04FS answers every name with a small regular file whose content names the handler id.
type c04FS struct{ hid int }

type c04File struct {
	*strings.Reader
	name string
	size int64
}

func (f c04FS) Open(name string) (fs.File, error) {
	body := "FILE" + strconv.Itoa(f.hid)
	return &c04File{strings.NewReader(body), "f.txt", int64(len(body))}, nil
}
func (f *c04File) Stat() (fs.FileInfo, error) { return f, nil }
func (f *c04File) Close() error               { return nil }
func (f *c04File) Name() string               { return f.name }
func (f *c04File) Size() int64                { return f.size }
func (f *c04File) Mode() fs.FileMode          { return 0o444 }
func (f *c04File) ModTime() time.Time         { return time.Time{} }
func (f *c04File) IsDir() bool                { return false }
func (f *c04File) Sys() any                   { return nil }

func c04Register(e *echo.Echo, groups []*echo.Group, o c04Op, h echo.HandlerFunc, m []echo.MiddlewareFunc) {
	type registrar interface {
		rRegistrar
		FileFS(path, file string, filesystem fs.FS, m ...echo.MiddlewareFunc) *echo.Route
	}
	var r registrar = e
	if o.G >= 0 {
		r = groups[o.G]
	}
	switch o.Via {
	case "verb":
		if !rAddVerb(r, o.Method, o.Path, h, m...) {
			r.Add(o.Method, o.Path, h, m...)
		}
	case "match":
		r.Match([]string{o.Method}, o.Path, h, m...)
	case "any":
		if o.G >= 0 {
			groups[o.G].Any(o.Path, h, m...)
		} else {
			e.Any(o.Path, h, m...)
		}
	case "filefs":
		r.FileFS(o.Path, "f.txt", c04FS{o.Hid}, m...)
	case "staticfs":
		pre := strings.TrimSuffix(o.Path, "*")
		if o.G >= 0 {
			groups[o.G].StaticFS(pre, c04FS{o.Hid})
		} else {
			e.StaticFS(pre, c04FS{o.Hid})
		}
	default:
		r.Add(o.Method, o.Path, h, m...)
	}
}

func strconvItoa(i int) string { return strconv.Itoa(i) }

func minInt(a, b int) int {
	if a < b {
		return a
	}
	return b
}

var c04Segs = []string{"/a", "/b", "/g", "/api", "/v1", "/x"}

// c04AliasBlock: a fixed block of programs (the same for every seed) about who owns a middleware list.  All lists are
// windows of one application-owned array with spare capacity (see c04Run); the group is created through e.Group /
// an empty e.Group + first Use / Group.Group / e.Host; between creation and the later Use calls (both orders) the
// application hands the next window to an Echo-level route or to a sibling group; it may then overwrite its array;
// finally a route is registered on the group.  Whatever the order, every route and every miss runs what was
// registered for it.
func c04AliasBlock() []any {
	var out []any
	for creator := 0; creator < 4; creator++ {
		for between := 0; between < 3; between++ {
			for later := 0; later < 3; later++ {
				for scribble := 0; scribble < 2; scribble++ {
					for order := 0; order < 2; order++ {
						if order == 1 && (between == 0 || later == 0) {
							continue // nothing to swap
						}
						id, hid := 1, 1
						ids := func(n int) []int {
							var l []int
							for i := 0; i < n; i++ {
								l = append(l, id)
								id++
							}
							return l
						}
						var ops []c04Op
						target, prefix, host, ngroups := 0, "/al", "", 1
						switch creator {
						case 0:
							ops = append(ops, c04Op{Kind: "group", Parent: -1, Prefix: "/al", Mws: ids(2)})
						case 1:
							ops = append(ops, c04Op{Kind: "group", Parent: -1, Prefix: "/al"}, c04Op{Kind: "groupUse", G: 0, Mws: ids(2)})
						case 2:
							ops = append(ops, c04Op{Kind: "group", Parent: -1, Prefix: "/p", Mws: ids(1)}, c04Op{Kind: "group", Parent: 0, Prefix: "/al", Mws: ids(2)})
							target, prefix, ngroups = 1, "/p/al", 2
						case 3:
							ops = append(ops, c04Op{Kind: "host", Name: "a.com", Mws: ids(2)})
							prefix, host = "", "a.com"
						}
						sib := -1
						stepA := func() {
							switch between {
							case 1:
								ops = append(ops, c04Op{Kind: "add", G: -1, Method: "GET", Path: "/e", Hid: hid, Mws: ids(2)})
								hid++
							case 2:
								ops = append(ops, c04Op{Kind: "group", Parent: -1, Prefix: "/sib", Mws: ids(2)})
								sib = ngroups
								ngroups++
							}
						}
						stepB := func() {
							for k := 0; k < later; k++ {
								ops = append(ops, c04Op{Kind: "groupUse", G: target, Mws: ids(1)})
								if sib >= 0 && k == 0 {
									ops = append(ops, c04Op{Kind: "groupUse", G: sib, Mws: ids(1)})
								}
							}
						}
						if order == 0 {
							stepA()
							stepB()
						} else {
							stepB()
							stepA()
						}
						if scribble == 1 {
							ops = append(ops, c04Op{Kind: "appWrites"})
						}
						ops = append(ops, c04Op{Kind: "add", G: target, Method: "GET", Path: "/r", Hid: hid, Mws: ids(1)})
						hid++
						reqs := []rReq{{Method: "GET", Path: prefix + "/r", Host: host}, {Method: "GET", Path: prefix + "/missing", Host: host}}
						if between == 1 {
							reqs = append(reqs, rReq{Method: "GET", Path: "/e"})
						}
						if sib >= 0 {
							ops = append(ops, c04Op{Kind: "add", G: sib, Method: "GET", Path: "/r", Hid: hid})
							hid++
							reqs = append(reqs, rReq{Method: "GET", Path: "/sib/r"}, rReq{Method: "POST", Path: "/sib/missing"})
						}
						for _, q := range reqs {
							out = append(out, &c04Case{Ops: ops, Req: q})
						}
					}
				}
			}
		}
	}
	return out
}

func c04Gen(r *rand.Rand, tier string) []any {
	progs, per := 350, 14
	if tier == "thorough" {
		progs, per = 4000, 24
	}
	out := c04AliasBlock()
	for p := 0; p < progs; p++ {
		nextID, nextHid := 1, 1
		newIDs := func(max int) []int {
			n := r.Intn(max + 1)
			var l []int
			for i := 0; i < n; i++ {
				l = append(l, nextID)
				nextID++
			}
			return l
		}
		var ops []c04Op
		type ginfo struct {
			host, prefix string
		}
		var gs []ginfo
		usedPrefix := map[string]bool{}
		hostNames := []string{"a.com", "b.org", "a.com:8080", "Api.b.org"}
		usedHost := map[string]bool{}
		var paths []string
		var rewriteFrom []string
		nops := 3 + r.Intn(12)
		if r.Intn(5) == 0 {
			// slice-aliasing shape: a parent group whose middleware list grew by several single Use calls
			// (so its slice has spare capacity), then sibling sub-groups, then routes on the first sibling
			pre := c04Segs[r.Intn(len(c04Segs))]
			ops = append(ops, c04Op{Kind: "group", Parent: -1, Prefix: pre, Mws: newIDs(1)})
			gs = append(gs, ginfo{"", pre})
			usedPrefix["|"+pre] = true
			parent := len(gs) - 1
			for u := 0; u < 1+r.Intn(4); u++ {
				ops = append(ops, c04Op{Kind: "groupUse", G: parent, Mws: []int{nextID}})
				nextID++
			}
			nsib := 2 + r.Intn(2)
			first := len(gs)
			for sib := 0; sib < nsib; sib++ {
				sp := c04Segs[(sib+r.Intn(2))%len(c04Segs)] + strconvItoa(sib)
				ops = append(ops, c04Op{Kind: "group", Parent: parent, Prefix: sp, Mws: []int{nextID}})
				nextID++
				gs = append(gs, ginfo{"", pre + sp})
			}
			if r.Intn(2) == 0 {
				ops = append(ops, c04Op{Kind: "groupUse", G: parent, Mws: []int{nextID}})
				nextID++
			}
			for sib := 0; sib < nsib; sib++ {
				ops = append(ops, c04Op{Kind: "add", G: first + sib, Method: "GET", Path: "/r", Hid: nextHid, Mws: newIDs(1)})
				nextHid++
				paths = append(paths, gs[first+sib].prefix+"/r", gs[first+sib].prefix+"/r", gs[first+sib].prefix+"/missing")
			}
			nops = r.Intn(4)
		} else if r.Intn(5) == 0 {
			// the same for routes: a group whose list has spare capacity (several single Use calls, or five ids at
			// once), then routes with route-level middleware through the various entry points, with further Use
			// calls and registrations in between: every route keeps exactly the snapshot of its registration
			pre := c04Segs[r.Intn(len(c04Segs))]
			first := newIDs(1)
			if r.Intn(3) == 0 {
				first = []int{nextID, nextID + 1, nextID + 2, nextID + 3, nextID + 4}
				nextID += 5
			}
			ops = append(ops, c04Op{Kind: "group", Parent: -1, Prefix: pre, Mws: first})
			gs = append(gs, ginfo{"", pre})
			usedPrefix["|"+pre] = true
			g := len(gs) - 1
			for u := 0; u < r.Intn(4); u++ {
				ops = append(ops, c04Op{Kind: "groupUse", G: g, Mws: []int{nextID}})
				nextID++
			}
			nr := 2 + r.Intn(3)
			for k := 0; k < nr; k++ {
				ao := c04Op{Kind: "add", G: g, Method: []string{"GET", "POST"}[r.Intn(2)], Path: "/r" + strconvItoa(k), Hid: nextHid, Mws: []int{nextID}}
				nextID++
				if r.Intn(2) == 0 {
					ao.Mws = append(ao.Mws, nextID)
					nextID++
				}
				ao.Via = []string{"", "verb", "match", "any", "any", "match"}[r.Intn(6)]
				ops = append(ops, ao)
				nextHid++
				paths = append(paths, pre+ao.Path, pre+ao.Path)
				if r.Intn(2) == 0 {
					ops = append(ops, c04Op{Kind: "groupUse", G: g, Mws: []int{nextID}})
					nextID++
				}
			}
			paths = append(paths, pre+"/missing")
			nops = r.Intn(3)
		}
		if len(ops) == 0 && r.Intn(6) == 0 {
			// the application's own not-found handlers on and around the two patterns a group keeps registered for
			// its misses, interleaved with Use calls: on the group through Group.RouteNotFound / Add / Match, on the
			// Echo instance for the same pattern (outside the group), on a sub-group created in between
			pre := c04Segs[r.Intn(len(c04Segs))]
			ops = append(ops, c04Op{Kind: "group", Parent: -1, Prefix: pre, Mws: newIDs(2)})
			gs = append(gs, ginfo{"", pre})
			usedPrefix["|"+pre] = true
			g := len(gs) - 1
			sub := -1
			for k, steps := 0, 3+r.Intn(5); k < steps; k++ {
				switch r.Intn(8) {
				case 0, 1, 2:
					ao := c04Op{Kind: "add", G: g, Method: routeNotFound, Path: []string{"/*", "", "/*", "/sub/*", "/r/*"}[r.Intn(5)], Hid: nextHid,
						Fails: r.Intn(2) == 0, Mws: newIDs(1), Via: []string{"verb", "verb", "", "match"}[r.Intn(4)]}
					nextHid++
					ops = append(ops, ao)
				case 3, 4:
					ops = append(ops, c04Op{Kind: "groupUse", G: g, Mws: newIDs(2)})
				case 5:
					ao := c04Op{Kind: "add", G: -1, Method: routeNotFound, Path: pre + []string{"/*", "", "/sub/*"}[r.Intn(3)], Hid: nextHid,
						Fails: r.Intn(2) == 0, Mws: newIDs(1), Via: []string{"verb", ""}[r.Intn(2)]}
					nextHid++
					ops = append(ops, ao)
				case 6:
					if sub < 0 {
						ops = append(ops, c04Op{Kind: "group", Parent: g, Prefix: "/sub", Mws: newIDs(1)})
						gs = append(gs, ginfo{"", pre + "/sub"})
						usedPrefix["|"+pre+"/sub"] = true
						sub = len(gs) - 1
					} else {
						ao := c04Op{Kind: "add", G: sub, Method: routeNotFound, Path: []string{"/*", ""}[r.Intn(2)], Hid: nextHid, Mws: newIDs(1), Via: "verb"}
						nextHid++
						ops = append(ops, ao)
					}
				default:
					ops = append(ops, c04Op{Kind: "add", G: g, Method: []string{"GET", "POST"}[r.Intn(2)], Path: []string{"/r", "/*", "/r/:id"}[r.Intn(3)], Hid: nextHid, Mws: newIDs(1)})
					nextHid++
				}
			}
			for k := 0; k < 2; k++ {
				paths = append(paths, pre, pre+"/", pre+"/zzz", pre+"/r", pre+"/r/more", pre+"/sub", pre+"/sub/zzz")
			}
			nops = r.Intn(3)
		}
		for k := 0; k < nops; k++ {
			switch x := r.Intn(20); {
			case x < 2:
				o := c04Op{Kind: "pre", ID: nextID}
				nextID++
				if r.Intn(2) == 0 {
					o.From = c04Segs[r.Intn(len(c04Segs))] + []string{"", "/old", "/a"}[r.Intn(3)]
					o.To = c04Segs[r.Intn(len(c04Segs))] + []string{"", "/new", "/a", "/missing"}[r.Intn(4)]
					rewriteFrom = append(rewriteFrom, o.From)
				}
				switch r.Intn(6) {
				case 0: // a method override
					o.FromM = []string{"GET", "POST", "PUT"}[r.Intn(3)]
					o.ToM = []string{"GET", "POST", "PUT", "DELETE"}[r.Intn(4)]
				case 1: // a Host rewrite
					o.FromH = []string{"a.com", "b.org", "other.net", ""}[r.Intn(4)]
					o.ToH = []string{"a.com", "b.org", "other.net"}[r.Intn(3)]
				}
				ops = append(ops, o)
			case x < 4:
				ops = append(ops, c04Op{Kind: "use", ID: nextID})
				nextID++
			case x < 5:
				h := hostNames[r.Intn(len(hostNames))]
				if usedHost[h] {
					continue
				}
				usedHost[h] = true
				ops = append(ops, c04Op{Kind: "host", Name: h, Mws: newIDs(2)})
				gs = append(gs, ginfo{h, ""})
			case x < 9:
				parent := -1
				if len(gs) > 0 && r.Intn(2) == 0 {
					parent = r.Intn(len(gs))
				}
				pre := c04Segs[r.Intn(len(c04Segs))]
				if parent >= 0 && r.Intn(5) == 0 {
					pre = ""
				}
				host, full := "", pre
				if parent >= 0 {
					host, full = gs[parent].host, gs[parent].prefix+pre
				}
				key := host + "|" + full
				if usedPrefix[key] && pre != "" {
					continue
				}
				usedPrefix[key] = true
				ops = append(ops, c04Op{Kind: "group", Parent: parent, Prefix: pre, Mws: newIDs(2)})
				gs = append(gs, ginfo{host, full})
			case x < 11:
				if len(gs) == 0 {
					continue
				}
				ops = append(ops, c04Op{Kind: "groupUse", G: r.Intn(len(gs)), Mws: newIDs(2)})
			default:
				g := -1
				if len(gs) > 0 && r.Intn(3) > 0 {
					g = r.Intn(len(gs))
				}
				var path string
				switch r.Intn(8) {
				case 0:
					path = ""
				case 1:
					path = "/*"
				case 2:
					path = "/:id"
				case 3:
					path = c04Segs[r.Intn(len(c04Segs))] + "/:id"
				case 4:
					path = "*"
				default:
					path = c04Segs[r.Intn(len(c04Segs))]
				}
				if g < 0 && path == "" {
					path = "/"
				}
				m := []string{"GET", "GET", "POST", "PUT"}[r.Intn(4)]
				if r.Intn(12) == 0 {
					m = routeNotFound // the application's own not-found route (Echo.RouteNotFound / Group.RouteNotFound)
				}
				ao := c04Op{Kind: "add", G: g, Method: m, Path: path, Hid: nextHid, Fails: r.Intn(4) == 0, Mws: newIDs(2)}
				switch r.Intn(8) {
				case 0:
					ao.Via = "verb"
				case 1:
					ao.Via = "match"
					if r.Intn(3) == 0 {
						ao.Via = "any" // Echo.Any / Group.Any: one handler for the eleven standard methods
					}
				case 2:
					ao.Via, ao.Method, ao.Fails = "filefs", "GET", false
				case 3:
					if strings.HasSuffix(path, "*") {
						ao.Via, ao.Method, ao.Fails, ao.Mws = "staticfs", "GET", false, nil
					}
				}
				ops = append(ops, ao)
				nextHid++
				full := path
				if g >= 0 {
					full = gs[g].prefix + path
				}
				paths = append(paths, full)
			}
		}
		if len(ops) > 1 && r.Intn(10) == 0 {
			// somewhere in between the application re-uses the array its lists live in
			at := 1 + r.Intn(len(ops)-1)
			ops = append(ops[:at:at], append([]c04Op{{Kind: "appWrites"}}, ops[at:]...)...)
		}
		for _, g := range gs {
			paths = append(paths, g.prefix, g.prefix+"/missing", g.prefix+"/a/deep")
		}
		paths = append(paths, "/", "/nothing")
		paths = append(paths, rewriteFrom...)
		for k := 0; k < per; k++ {
			p := paths[r.Intn(len(paths))]
			p = strings.ReplaceAll(strings.ReplaceAll(p, ":id", []string{"7", "a", "new"}[r.Intn(3)]), "*", []string{"", "x", "x/y"}[r.Intn(3)])
			if p == "" || p[0] != '/' {
				p = "/" + p
			}
			if r.Intn(6) == 0 {
				p = rMutatePath(r, p)
				if p == "" || p[0] != '/' {
					p = "/" + p
				}
			}
			q := rReq{Method: []string{"GET", "GET", "POST", "PUT", "OPTIONS", "DELETE"}[r.Intn(6)], Path: p}
			switch r.Intn(4) {
			case 0:
				q.Host = "a.com"
			case 1:
				q.Host = []string{"b.org", "other.net", "a.com:80", "a.com:8080", "Api.b.org", "api.b.org", "a.com:8080"}[r.Intn(7)]
			}
			cs := &c04Case{Ops: ops, Req: q}
			switch r.Intn(12) {
			case 0, 1:
				cs.Flavour = 1 + r.Intn(len(c04FlavourNames)-1)
			case 2:
				cs.CancelAt = 1 + r.Intn(nextID)
			}
			out = append(out, cs)
		}
	}
	return out
}

func c04Shrink(ci any) []any {
	c := ci.(*c04Case)
	var out []any
	if c.CancelAt != 0 {
		d := *c
		d.CancelAt = 0
		out = append(out, &d)
	}
	if c.Flavour != 0 {
		d := *c
		d.Flavour = 0
		out = append(out, &d)
	}
	for i := range c.Ops {
		// dropping a group-creating op would shift group indices: only drop ops nobody refers to
		if c.Ops[i].Kind == "host" || c.Ops[i].Kind == "group" {
			continue
		}
		d := *c
		d.Ops = append(append([]c04Op(nil), c.Ops[:i]...), c.Ops[i+1:]...)
		out = append(out, &d)
	}
	for i, o := range c.Ops {
		if len(o.Mws) > 0 {
			d := *c
			d.Ops = append([]c04Op(nil), c.Ops...)
			o2 := o
			o2.Mws = o.Mws[:len(o.Mws)-1]
			d.Ops[i] = o2
			out = append(out, &d)
		}
	}
	return out
}

func init() {
	register(&Prop{
		ID:             "C04",
		Rule:           "random registration programs (3-14 ops: Pre with optional path rewrite, Use, Host groups, nested groups incl. empty sub-prefix, Group.Use after routes were added, routes with 0-2 route-level middleware, failing handlers; every middleware has a unique id) x requests derived from the registered paths, group prefixes (+/missing, deeper), rewrite sources, mutants x methods x Host values; a sixth of the programs are about the application's own RouteNotFound handlers on and around a group's two catch-all patterns (through Group.RouteNotFound / Add / Match, on the Echo instance, on a sub-group) interleaved with Use calls; a fixed block of 144 programs (same for every seed) about ownership of the middleware lists (all lists are windows of one application-owned array; e.Group / first Use / Group.Group / e.Host x what is handed over in between x later Use calls x both orders x the application overwriting its array); a quarter of the requests are flavoured (context already cancelled / past its deadline / cancelled by a middleware on the way in, upgrade headers, HTTP/1.0, a body with Expect) and are served together with their plain twin: same layers required; non-trivial = at least two middleware layers ran and the program has a group; distinct = distinct model op lines",
		New:            func() any { return &c04Case{} },
		Gen:            c04Gen,
		Run:            c04Run,
		Shrink:         c04Shrink,
		Correspondence: "C04.serve ∘ C04.run (lean/EchoModel/C04.lean; applyMiddleware as function composition over the L3 router model) vs Echo/Group registration + Echo.ServeHTTP",
	})
}
