package main

// Correspondence-run framework shared by all properties.
//
// A property registers a *Prop.  The framework generates cases (corpus first, then seeded
// random cases), runs the REAL echo code on each case (Run), pipes the model ops lines to
// the Lean driver `echomodel`, compares the two observation lines, evaluates the
// model-free oracle verdicts, classifies failures against known-findings.jsonl, shrinks
// unlisted failures, and writes a stats file that bin/check merges into the evidence.

import (
	"bufio"
	"bytes"
	"encoding/hex"
	"encoding/json"
	"fmt"
	"math/rand"
	"os"
	"os/exec"
	"path/filepath"
	"sort"
	"strconv"
	"strings"
	"sync"
	"time"
)

// Result of running the real code on one case.
type Result struct {
	Ops        string   // line for the model ("" = case has no model comparison)
	Obs        string   // implementation observation, in the model's output format
	Oracle     string   // "" or a description of a model-free oracle failure
	Tags       []string // histogram keys describing what the case exercised
	Nontrivial bool     // non-trivial by the property's stated rule
}

type Prop struct {
	ID   string
	Rule string // evidence: how cases are generated and what counts as non-trivial
	// New returns a pointer to a zero case (for JSON decoding of corpus / replay files).
	New func() any
	// Gen generates the cases of a run.  tier is "quick" or "thorough".
	Gen func(r *rand.Rand, tier string) []any
	// Run executes the real code (must recover panics itself where panics are observations).
	Run func(c any) Result
	// Shrink proposes smaller variants of a case (may be nil).
	Shrink func(c any) []any
	// Mutate proposes neighbours of a case for the failing-input search (may be nil).
	Mutate func(r *rand.Rand, c any) []any
	// Known returns the id of the known finding whose signature the failing case matches.
	Known func(c any, res Result, modelObs string) string
	// Serial: cases must not run concurrently (global hooks, pools under test).
	Serial bool
	// Correspondence names the model definition the run is compared with.
	Correspondence string
	// Extra is called once after the run for property-specific extra evidence (may be nil).
	Extra func(tier string, seed int64) map[string]any
	// Tolerable reports whether a difference between the implementation's and the model's observation of a
	// case lies entirely OUTSIDE what the property's statement constrains (the wording of a message, a header
	// the property does not speak about, which error status refuses a request, a configuration the property's
	// quantifier excludes).  The model mirrors more of the code than the property needs; such a difference is
	// "model drift": counted, sampled into the evidence and printed as a MODEL-DRIFT note, but it is not a
	// broken correspondence — the part of the observation the theorems' conclusions speak about still agrees.
	// nil: every difference counts.  The model-free oracle is applied regardless.
	Tolerable func(c any, implObs, modelObs string) bool
}

var registry = map[string]*Prop{}

func register(p *Prop) { registry[p.ID] = p }

// ---------- wire helpers (mirror lean/EchoModel/Wire.lean) ----------

func wStr(s string) string   { return "s" + hex.EncodeToString([]byte(s)) }
func wBytes(b []byte) string { return "s" + hex.EncodeToString(b) }
func wInt(n int) string      { return strconv.Itoa(n) }
func wInt64(n int64) string  { return strconv.FormatInt(n, 10) }
func wBool(b bool) string {
	if b {
		return "1"
	}
	return "0"
}
func wStrs(l []string) string {
	parts := []string{strconv.Itoa(len(l))}
	for _, s := range l {
		parts = append(parts, wStr(s))
	}
	return strings.Join(parts, " ")
}
func wJoin(parts ...string) string { return strings.Join(parts, " ") }

// ---------- model driver ----------

var modelBin string

func runModel(id string, ops []string) ([]string, error) {
	if len(ops) == 0 {
		return nil, nil
	}
	var in bytes.Buffer
	for _, o := range ops {
		in.WriteString(o)
		in.WriteByte('\n')
	}
	cmd := exec.Command(modelBin, id)
	cmd.Stdin = &in
	var out, errb bytes.Buffer
	cmd.Stdout = &out
	cmd.Stderr = &errb
	if err := cmd.Run(); err != nil {
		return nil, fmt.Errorf("model driver failed: %v: %s", err, errb.String())
	}
	var lines []string
	sc := bufio.NewScanner(&out)
	sc.Buffer(make([]byte, 1<<20), 1<<28)
	for sc.Scan() {
		lines = append(lines, sc.Text())
	}
	if len(lines) != len(ops) {
		return nil, fmt.Errorf("model driver returned %d lines for %d ops", len(lines), len(ops))
	}
	return lines, nil
}

func modelOne(id, ops string) string {
	if ops == "" {
		return ""
	}
	l, err := runModel(id, []string{ops})
	if err != nil || len(l) != 1 {
		return "model-error"
	}
	return l[0]
}

// ---------- known findings ----------

type finding struct {
	Status   string `json:"status"`
	Property string `json:"property"`
	ID       string `json:"id"`
	What     string `json:"what"`
}

func loadFindings(path, prop string) map[string]finding {
	m := map[string]finding{}
	f, err := os.Open(path)
	if err != nil {
		return m
	}
	defer f.Close()
	sc := bufio.NewScanner(f)
	sc.Buffer(make([]byte, 1<<20), 1<<24)
	for sc.Scan() {
		line := strings.TrimSpace(sc.Text())
		if line == "" || strings.HasPrefix(line, "#") {
			continue
		}
		var fd finding
		if json.Unmarshal([]byte(line), &fd) == nil && fd.Property == prop {
			m[fd.ID] = fd
		}
	}
	return m
}

// ---------- the run ----------

type failure struct {
	idx      int
	c        any
	res      Result
	modelObs string
	kind     string // "oracle" or "tie"
}

func (f failure) what() string {
	if f.kind == "oracle" {
		return f.res.Oracle
	}
	return "model and implementation disagree"
}

// inflightDir: when set, every worker records the case it is about to run there, so that after a
// crash of the whole process (a fatal error inside the code under test cannot be recovered) the
// orchestrator can replay the cases that were in flight one by one and name the failing input.
var inflightDir string

func noteInflight(w int, c any) {
	if inflightDir == "" {
		return
	}
	b, err := json.Marshal(map[string]any{"case": caseJSON(c)})
	if err == nil {
		f := filepath.Join(inflightDir, fmt.Sprintf("inflight-%d.json", w))
		if os.WriteFile(f+".tmp", b, 0o644) == nil {
			os.Rename(f+".tmp", f)
		}
	}
}

type options struct {
	tier      string
	seed      int64
	verifDir  string
	statsOut  string
	replayIn  string
	maxReport int
}

func runAll(p *Prop, cases []any) []Result {
	res := make([]Result, len(cases))
	if p.Serial {
		for i, c := range cases {
			noteInflight(0, c)
			res[i] = p.Run(c)
		}
		return res
	}
	var wg sync.WaitGroup
	nw := 12
	ch := make(chan int, 256)
	for w := 0; w < nw; w++ {
		wg.Add(1)
		go func(w int) {
			defer wg.Done()
			for i := range ch {
				noteInflight(w, cases[i])
				res[i] = p.Run(cases[i])
			}
		}(w)
	}
	for i := range cases {
		ch <- i
	}
	close(ch)
	wg.Wait()
	return res
}

func evalCase(p *Prop, c any) (Result, string) {
	r := p.Run(c)
	return r, modelOne(p.ID, r.Ops)
}

// failKind: "oracle" (the property itself fails on the real code), "tie" (model and implementation disagree
// on something the property constrains), "drift" (they disagree only outside it: not a failure), "".
func failKind(p *Prop, c any, r Result, m string) string {
	if r.Oracle != "" {
		return "oracle"
	}
	if r.Ops != "" && r.Obs != m {
		if p.Tolerable != nil && m != "model-error" && tolerable(p, c, r.Obs, m) {
			return "drift"
		}
		return "tie"
	}
	return ""
}

func tolerable(p *Prop, c any, impl, model string) (ok bool) {
	defer func() {
		if recover() != nil {
			ok = false
		}
	}()
	return p.Tolerable(c, impl, model)
}

func caseJSON(c any) json.RawMessage {
	b, err := json.Marshal(c)
	if err != nil {
		return json.RawMessage(`"unserialisable"`)
	}
	return b
}

func loadCorpus(p *Prop, dir string) []any {
	var out []any
	files, _ := filepath.Glob(filepath.Join(dir, "*.json"))
	sort.Strings(files)
	for _, f := range files {
		b, err := os.ReadFile(f)
		if err != nil {
			continue
		}
		var env struct {
			Case json.RawMessage `json:"case"`
		}
		if json.Unmarshal(b, &env) != nil || env.Case == nil {
			continue
		}
		c := p.New()
		if json.Unmarshal(env.Case, c) != nil {
			continue
		}
		out = append(out, c)
	}
	return out
}

func check(p *Prop, o options) int {
	start := time.Now()
	known := loadFindings(filepath.Join(o.verifDir, "known-findings.jsonl"), p.ID)
	rng := rand.New(rand.NewSource(o.seed))
	corpus := loadCorpus(p, filepath.Join(o.verifDir, "corpus", p.ID))
	cases := append(corpus, p.Gen(rng, o.tier)...)
	results := runAll(p, cases)

	var ops []string
	var opIdx []int
	for i, r := range results {
		if r.Ops != "" {
			ops = append(ops, r.Ops)
			opIdx = append(opIdx, i)
		}
	}
	modelObs := make([]string, len(cases))
	mo, err := runModel(p.ID, ops)
	if err != nil {
		fmt.Fprintln(os.Stderr, "ERROR:", err)
		return 2
	}
	for k, i := range opIdx {
		modelObs[i] = mo[k]
	}

	tags := map[string]int{}
	distinct := map[string]bool{}
	var fails []failure
	compared := 0
	drift := 0
	var driftSamples []any
	for i, r := range results {
		for _, t := range r.Tags {
			tags[t]++
		}
		if r.Nontrivial {
			key := r.Ops
			if key == "" {
				key = string(caseJSON(cases[i]))
			}
			distinct[key] = true
		}
		if r.Ops != "" {
			compared++
		}
		if k := failKind(p, cases[i], r, modelObs[i]); k == "drift" {
			drift++
			if len(driftSamples) < 5 {
				driftSamples = append(driftSamples, map[string]any{"case": caseJSON(cases[i]), "ops": r.Ops, "impl_obs": r.Obs, "model_obs": modelObs[i]})
			}
		} else if k != "" {
			fails = append(fails, failure{i, cases[i], r, modelObs[i], k})
		}
	}

	knownHit := map[string]int{}
	violations := 0
	var violationLines []string
	replayDir := filepath.Join(o.verifDir, "replay")
	reported := map[string]bool{}
	shrinkBudget := 3000
	for _, f := range fails {
		id := ""
		if p.Known != nil {
			id = p.Known(f.c, f.res, f.modelObs)
		}
		if id != "" {
			if fd, ok := known[id]; ok && fd.Status == "known" {
				knownHit[id]++
				continue
			}
		}
		if violations >= o.maxReport {
			violations++
			continue
		}
		// unlisted failure: shrink, search for a failing input, report
		fc := f
		fc = shrinkFailure(p, fc, known, &shrinkBudget)
		noInput := false
		if fc.kind == "tie" {
			if g, ok := searchOracleFailure(p, fc, known, rng, &shrinkBudget); ok {
				fc = shrinkFailure(p, g, known, &shrinkBudget)
			} else {
				noInput = true
			}
		}
		sig := fc.kind + "|" + string(caseJSON(fc.c))
		if reported[sig] {
			continue
		}
		reported[sig] = true
		violations++
		os.MkdirAll(replayDir, 0o755)
		path := filepath.Join(replayDir, fmt.Sprintf("%s-%d-%d.json", p.ID, o.seed, violations))
		rep := map[string]any{
			"property":   p.ID,
			"kind":       fc.kind,
			"what":       fc.what(),
			"case":       caseJSON(fc.c),
			"ops":        fc.res.Ops,
			"impl_obs":   fc.res.Obs,
			"model_obs":  fc.modelObs,
			"oracle":     fc.res.Oracle,
			"seed":       o.seed,
			"tier":       o.tier,
			"replay_cmd": fmt.Sprintf("bin/check %s --replay %s", p.ID, path),
		}
		if noInput {
			rep["no_failing_input_found"] = true
			rep["broken_correspondence"] = p.Correspondence
			rep["note"] = "the implementation no longer behaves as the Lean model on this input; the model-free oracle found no input on which the property itself fails within the search budget"
		}
		b, _ := json.MarshalIndent(rep, "", " ")
		os.WriteFile(path, b, 0o644)
		rel, _ := filepath.Rel(o.verifDir, path)
		line := fmt.Sprintf("VIOLATION property=%s replay=%s", p.ID, rel)
		if noInput {
			line += " no-failing-input-found"
		}
		violationLines = append(violationLines, line)
	}
	ids := make([]string, 0, len(knownHit))
	for id := range knownHit {
		ids = append(ids, id)
	}
	sort.Strings(ids)
	for _, id := range ids {
		fmt.Printf("KNOWN-FINDING: property=%s %s: %s (%d cases)\n", p.ID, id, known[id].What, knownHit[id])
	}
	for _, l := range violationLines {
		fmt.Println(l)
	}
	if drift > 0 {
		fmt.Printf("MODEL-DRIFT: property=%s %d cases where the implementation differs from the Lean model only in details the property does not constrain (samples in the evidence); not a violation\n", p.ID, drift)
	}

	// samples
	var samples []any
	step := len(cases)/4 + 1
	for i := 0; i < len(cases); i += step {
		samples = append(samples, map[string]any{"case": caseJSON(cases[i]), "ops": results[i].Ops, "impl_obs": results[i].Obs, "model_obs": modelObs[i]})
	}
	stats := map[string]any{
		"property":                      p.ID,
		"tier":                          o.tier,
		"seed":                          o.seed,
		"evaluations":                   len(cases),
		"corpus_cases":                  len(corpus),
		"distinct_nontrivial":           len(distinct),
		"rule":                          p.Rule,
		"traces_validated_against_impl": compared,
		"disagreements_checked":         len(fails),
		"known_findings_hit":            knownHit,
		"tags":                          tags,
		"samples":                       samples,
		"violations":                    violations,
		"model_drift_outside_property":  drift,
		"model_drift_samples":           driftSamples,
		"correspondence":                p.Correspondence,
		"harness_wall_s":                time.Since(start).Seconds(),
	}
	if p.Extra != nil {
		for k, v := range p.Extra(o.tier, o.seed) {
			stats[k] = v
		}
	}
	if o.statsOut != "" {
		b, _ := json.MarshalIndent(stats, "", " ")
		os.WriteFile(o.statsOut, b, 0o644)
	}
	fmt.Printf("%s: %d cases (%d corpus), %d compared with the model, %d distinct non-trivial, %d failures (%d known), %d violations\n",
		p.ID, len(cases), len(corpus), compared, len(distinct), len(fails), len(fails)-violations, violations)
	if violations > 0 {
		return 1
	}
	return 0
}

func stillFails(p *Prop, c any, kind string, known map[string]finding) (failure, bool) {
	r, m := evalCase(p, c)
	k := failKind(p, c, r, m)
	if k == "" || k != kind {
		return failure{}, false
	}
	if p.Known != nil {
		if id := p.Known(c, r, m); id != "" {
			if fd, ok := known[id]; ok && fd.Status == "known" {
				return failure{}, false
			}
		}
	}
	return failure{0, c, r, m, k}, true
}

func shrinkFailure(p *Prop, f failure, known map[string]finding, budget *int) failure {
	if p.Shrink == nil {
		return f
	}
	for progress := true; progress && *budget > 0; {
		progress = false
		for _, cand := range p.Shrink(f.c) {
			if *budget <= 0 {
				break
			}
			*budget--
			if g, ok := stillFails(p, cand, f.kind, known); ok {
				f = g
				progress = true
				break
			}
		}
	}
	return f
}

// searchOracleFailure looks around a model/implementation disagreement for an input on
// which the model-free oracle (the property itself) fails.
func searchOracleFailure(p *Prop, f failure, known map[string]finding, rng *rand.Rand, budget *int) (failure, bool) {
	var cands []any
	if p.Shrink != nil {
		cands = append(cands, p.Shrink(f.c)...)
	}
	if p.Mutate != nil {
		cands = append(cands, p.Mutate(rng, f.c)...)
	}
	for _, c := range cands {
		if *budget <= 0 {
			break
		}
		*budget--
		if g, ok := stillFails(p, c, "oracle", known); ok {
			return g, true
		}
	}
	return failure{}, false
}

func replay(p *Prop, o options) int {
	b, err := os.ReadFile(o.replayIn)
	if err != nil {
		fmt.Fprintln(os.Stderr, err)
		return 2
	}
	var env struct {
		Case json.RawMessage `json:"case"`
	}
	if err := json.Unmarshal(b, &env); err != nil || env.Case == nil {
		fmt.Fprintln(os.Stderr, "replay file has no case")
		return 2
	}
	c := p.New()
	if err := json.Unmarshal(env.Case, c); err != nil {
		fmt.Fprintln(os.Stderr, err)
		return 2
	}
	r, m := evalCase(p, c)
	fmt.Println("case:     ", string(env.Case))
	fmt.Println("ops:      ", r.Ops)
	fmt.Println("impl obs: ", r.Obs)
	fmt.Println("model obs:", m)
	fmt.Println("oracle:   ", r.Oracle)
	if k := failKind(p, c, r, m); k == "drift" {
		fmt.Println("model drift outside the property (not a failure)")
		return 0
	} else if k != "" {
		known := loadFindings(filepath.Join(o.verifDir, "known-findings.jsonl"), p.ID)
		if p.Known != nil {
			if id := p.Known(c, r, m); id != "" && known[id].Status == "known" {
				fmt.Printf("KNOWN-FINDING: property=%s %s: %s\n", p.ID, id, known[id].What)
				return 0
			}
		}
		fmt.Printf("VIOLATION property=%s replay=%s\n", p.ID, o.replayIn)
		return 1
	}
	fmt.Println("no failure on this input")
	return 0
}
