package main

// C10 — which differences between two reported client addresses (implementation vs the property's reading, and
// implementation vs model) lie OUTSIDE the property.
//
// The property fixes WHICH ADDRESS an extractor reports: the peer, the X-Real-IP header's address (only with a trusted
// peer and a valid header), the right-most X-Forwarded-For hop outside the trusted ranges (or the peer / the left-most
// entry), and that the result is a valid IP literal whenever the peer address is.  It does not fix the textual
// SPELLING of that address (`::ffff:127.0.0.1` / `127.0.0.1`, `2001:DB8:0:0::0001` / `2001:db8::1`, brackets removed
// or not ...).  So a reported address is compared with a reference as an ADDRESS when both texts are IP literals
// (net.ParseIP: zone-less; an IPv4-mapped IPv6 address is the IPv4 address), and as a text only when one of them
// is not — then nothing but the identical text agrees (an invalid literal, another fallback, another hop never do).
//
// One input class the property does not define: a request with SEVERAL X-Real-IP header lines.  The statement and the
// quantifier speak of "the header" / "X-Real-IP values" (one value per request); several header lines are mentioned
// for X-Forwarded-For only.  The code at the pinned commit takes the first line (Header.Get); the model does the same.
// "The X-Real-IP extractor uses the header ONLY WHEN the peer is trusted and the header is a valid IP" is a necessary
// condition: an implementation that treats the ambiguous request like one without the header and falls back to the
// peer address (which no header can steer) keeps every clause.  For such a request - and only for it - the peer
// address is accepted next to the reference; for a request with exactly one X-Real-IP line the reference stays
// the only answer (trusted peer + valid header => the header's address), otherwise "never uses the header" would pass.

import (
	"net"
	"strconv"
	"strings"
	"sync"
)

// c10Agree: the two texts denote the same address, or are the same text.
func c10Agree(got, want string) bool {
	if got == want {
		return true
	}
	a, b := net.ParseIP(got), net.ParseIP(want)
	return a != nil && b != nil && a.Equal(b)
}

// c10AmbiguousReal: the X-Real-IP extractor asked about a request with two or more X-Real-IP lines.
func c10AmbiguousReal(ext int, q c10Req) bool { return ext == 1 && len(q.real) >= 2 }

// c10AgreeReq: the answer `got` of extractor kind ext for request q agrees with the reference `want`.
func c10AgreeReq(ext int, q c10Req, got, want string) bool {
	if c10Agree(got, want) {
		return true
	}
	return c10AmbiguousReal(ext, q) && got == c10Host(q.remote)
}

// facts about the observation line of a case that the line does not carry: for every (host, result) pair whether
// the request was ambiguous in the sense above (recorded by c10Run / c10RunConcurrent)
var c10Shapes sync.Map // *c10Case -> []bool

func c10NoteShape(c *c10Case, ambiguous []bool) { c10Shapes.Store(c, ambiguous) }

// c10Tolerable: implObs and modelObs differ.  Lines of request cases are `n (host result)*` (byte strings);
// tolerated: same n, identical hosts, and every result pair denotes the same address (or, for an ambiguous
// X-Real-IP request, the implementation answers the peer).  Classification tables (kind 1) and the ParseIP stream
// (kind 3) are compared exactly.  Anything that cannot be parsed is not tolerated.
func c10Tolerable(ci any, implObs, modelObs string) bool {
	c, ok := ci.(*c10Case)
	if !ok || c.Kind == 1 || c.Kind == 3 {
		return false
	}
	var amb []bool
	if v, ok := c10Shapes.Load(c); ok {
		amb, _ = v.([]bool)
	}
	a, b := strings.Split(implObs, " "), strings.Split(modelObs, " ")
	if len(a) != len(b) || len(a) < 1 || a[0] != b[0] {
		return false
	}
	n, err := strconv.Atoi(a[0])
	if err != nil || n < 0 || len(a) != 1+2*n {
		return false
	}
	for i := 0; i < n; i++ {
		if a[1+2*i] != b[1+2*i] { // the peer as cut out of RemoteAddr
			return false
		}
		host, ok0 := c16Unhex(a[1+2*i])
		got, ok1 := c16Unhex(a[2+2*i])
		want, ok2 := c16Unhex(b[2+2*i])
		if !ok0 || !ok1 || !ok2 {
			return false
		}
		if c10Agree(got, want) {
			continue
		}
		if i < len(amb) && amb[i] && got == host {
			continue
		}
		return false
	}
	return true
}
