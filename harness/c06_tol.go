package main

// C06 — which differences between the implementation's and the model's observation lie outside
// the property (Prop.Tolerable).
//
// The property fixes: at most one header write, carrying the first status set; later status writes
// ignored and logged; Committed / Status / Size equal what was sent; before-hooks once, before the
// headers; an after-hook round after every body write.  It does NOT fix into how many underlying
// writes a HELPER splits its output (JSONPBlob may send `cb(`, payload, `);` as three writes or as
// one), nor what a helper returns to the application, nor which header VALUES are in the header
// block that goes out once.
//
// So, field by field of the three observation formats (main / hooks model "H" / tower model "N"):
//
//	never tolerated (compared as they are, after EVERY step where the format has steps):
//	  Committed, Status, Size of every Response; number of WriteHeader calls the writer received;
//	  the status it sent; the body bytes it received; the flushes it received; the number of
//	  'already committed' log lines; the number of requests / steps / Responses;
//	  the event trace — registrations, before-hook runs, the header write (with its status), an
//	  implicit 200 of the writer, flushes, warnings, body writes with their after-hook rounds,
//	  in order — UP TO ONE THING: two consecutive body writes, each followed by the SAME complete
//	  after-hook round and nothing else in between, count as one body write of the summed length
//	  followed by that round (the split of one output into several writes; a zero-length write
//	  next to another write of the same helper disappears the same way).  A write WITHOUT its
//	  round, a round in a different order, a hook between header and body that is not there on the
//	  other side, a second header write are all still differences.  (The implementation's own
//	  trace is judged by the oracle's acceptor on its own, whatever the model says.)
//	tolerated:
//	  retN / retErr (what Write or a helper returned to the application);
//	  sentCT / sentLoc / sentDisp (Content-Type, Location, Content-Disposition that were in the
//	  header map when the headers went out: header VALUES; the Content-Disposition clause of the
//	  oracle — Attachment of a missing file followed by a commit — stays).
func c06Tolerable(ci any, impl, model string) bool {
	c, ok := ci.(*c06Case)
	if !ok {
		return false
	}
	a, ok1 := c06TolParse(c, impl)
	b, ok2 := c06TolParse(c, model)
	if !ok1 || !ok2 || len(a) != len(b) {
		return false
	}
	for i := range a {
		if len(a[i].strict) != len(b[i].strict) {
			return false
		}
		for k := range a[i].strict {
			if a[i].strict[k] != b[i].strict[k] {
				return false
			}
		}
		ta, tb := c06TolCanon(a[i].trace), c06TolCanon(b[i].trace)
		if len(ta) != len(tb) {
			return false
		}
		for k := range ta {
			if ta[k] != tb[k] {
				return false
			}
		}
	}
	return true
}

type c06TolEv struct{ code, l, arg int }

type c06TolReq struct {
	strict []string
	trace  []c06TolEv
}

type c06TolToks struct {
	t  []string
	p  int
	ok bool
}

func (k *c06TolToks) next() string {
	if k.p >= len(k.t) {
		k.ok = false
		return ""
	}
	k.p++
	return k.t[k.p-1]
}

func (k *c06TolToks) num() int {
	s := k.next()
	n := 0
	if s == "" {
		k.ok = false
		return 0
	}
	for _, ch := range s {
		if ch < '0' || ch > '9' || n > 1<<40 {
			k.ok = false
			return 0
		}
		n = n*10 + int(ch-'0')
	}
	return n
}

func c06TolParse(c *c06Case, line string) ([]c06TolReq, bool) {
	if line == "" || line == "panic" || line == "bad-op" || line == "model-error" {
		return nil, false
	}
	k := &c06TolToks{t: splitFields(line), ok: true}
	var out []c06TolReq
	switch {
	case c06NestOf(c) > 0:
		// (committed status size)* ncalls body flushes ntrace (code layer arg)*
		var r c06TolReq
		for i := 0; i < 3*(c06NestOf(c)+1)+3; i++ {
			r.strict = append(r.strict, k.next())
		}
		n := k.num()
		for i := 0; i < n && k.ok; i++ {
			r.trace = append(r.trace, c06TolEv{k.num(), k.num(), k.num()})
		}
		out = append(out, r)
	case c06HasSubHooks(c):
		// committed status size ncalls body ntrace (code arg)*
		var r c06TolReq
		for i := 0; i < 5; i++ {
			r.strict = append(r.strict, k.next())
		}
		n := k.num()
		for i := 0; i < n && k.ok; i++ {
			r.trace = append(r.trace, c06TolEv{code: k.num(), arg: k.num()})
		}
		out = append(out, r)
	default:
		// nreq (nsteps (committed status size ncalls sent body flushes warns ret err)* sentCt sentLoc sentDisp ntrace (code arg)*)*
		nreq := k.num()
		for q := 0; q < nreq && k.ok; q++ {
			var r c06TolReq
			ns := k.num()
			r.strict = append(r.strict, "steps", wInt(ns))
			for i := 0; i < ns && k.ok; i++ {
				for f := 0; f < 8; f++ {
					r.strict = append(r.strict, k.next())
				}
				k.next() // retN: what Write returned to the application
				k.next() // retErr: whether the operation returned an error to the application
			}
			k.next() // sentCT
			k.next() // sentLoc
			k.next() // sentDisp
			n := k.num()
			for i := 0; i < n && k.ok; i++ {
				r.trace = append(r.trace, c06TolEv{code: k.num(), arg: k.num()})
			}
			out = append(out, r)
		}
	}
	if !k.ok || k.p != len(k.t) {
		return nil, false
	}
	return out, true
}

func splitFields(s string) []string {
	var out []string
	cur := -1
	for i := 0; i <= len(s); i++ {
		if i == len(s) || s[i] == ' ' {
			if cur >= 0 {
				out = append(out, s[cur:i])
				cur = -1
			}
		} else if cur < 0 {
			cur = i
		}
	}
	return out
}

// c06TolCanon merges `body a, round, body b, round` (the same complete after-hook round, nothing
// else in between) into `body a+b, round`; everything else stays as it is, in order.
func c06TolCanon(tr []c06TolEv) []c06TolEv {
	var out []c06TolEv
	lastBody := -1 // index in out of the body event of the group that ends at len(out), or -1
	for i := 0; i < len(tr); {
		e := tr[i]
		if e.code != c06Body {
			out = append(out, e)
			lastBody = -1
			i++
			continue
		}
		// the group: this body write and the after-hook runs that follow it directly
		j := i + 1
		for j < len(tr) && tr[j].code == c06RunA {
			j++
		}
		round := tr[i+1 : j]
		if lastBody >= 0 && c06TolSameRound(out[lastBody+1:], round) {
			out[lastBody].arg += e.arg
		} else {
			lastBody = len(out)
			out = append(out, e)
			out = append(out, round...)
		}
		i = j
	}
	return out
}

func c06TolSameRound(a, b []c06TolEv) bool {
	if len(a) != len(b) {
		return false
	}
	for i := range a {
		if a[i] != b[i] {
			return false
		}
	}
	return true
}
